#!/usr/bin/env python3
"""Detection demonstrations (DESIGN 2.8).
  run.py [name ...]      hand-written mutants from mutants.py (default: all)
  run.py --seeded        every /verif/seeded/<id>/patch.diff against the property in its meta.json
Each change is applied to /repo's working tree, the repository's own suite is run (must stay
green - otherwise the change is not a valid demonstration), the property's quick check is run
(must print VIOLATION), and the change is reverted (git checkout -- .).
Writes selftest/results.json."""
import json, os, subprocess, sys, glob, time
sys.path.insert(0, os.path.dirname(__file__))
from mutants import MUTANTS

def sh(cmd, cwd=None):
    p = subprocess.run(cmd, shell=True, cwd=cwd, capture_output=True, text=True)
    return p.returncode, p.stdout + p.stderr

def clean_tree():
    rc, out = sh("git -C /repo status --porcelain")
    return out.strip() == ""

def suite_green():
    rc, out = sh("CARGO_NET_OFFLINE=true cargo test --workspace --offline 2>&1 | grep -E '^test result|FAILED|^error'", cwd="/repo")
    return ("71 passed" in out) and ("FAILED" not in out) and ("error" not in out), out

def run_check(prop):
    rc, out = sh(f"./check {prop} quick", cwd="/verif")
    viol = [l for l in out.splitlines() if l.startswith("VIOLATION")]
    cls = [l.strip()[:200] for l in out.splitlines() if l.strip().startswith("class=")]
    return rc, bool(viol), cls[:2]

def main():
    assert clean_tree(), "/repo working tree must be clean"
    results = []
    if len(sys.argv) > 1 and sys.argv[1] == "--benign":
        from mutants import BENIGN
        bad = []
        for name, props, path, old, _, new in BENIGN:
            src = open("/repo/" + path).read()
            if src.count(old) < 1:
                print(f"{name}: anchor text found {src.count(old)} times in {path} - skipped"); continue
            open("/repo/" + path, "w").write(src.replace(old, new))
            try:
                green, out = suite_green()
                row = {}
                for prop in props:
                    rc, viol, cls = run_check(prop)
                    row[prop] = {"exit": rc, "violation": viol, "classes": cls}
                    if rc != 0 or viol:
                        bad.append((name, prop, rc, cls))
            finally:
                sh("git -C /repo checkout -- .")
            results.append({"name": name, "suite_green": green, "checks": row})
            print(f"{name:30s} suite_green={green} " + " ".join(f"{p}:{'ALARM' if v['violation'] or v['exit'] else 'quiet'}" for p, v in row.items()), flush=True)
        sh("rm -f /verif/replays/*.json")
        json.dump(results, open("/verif/selftest/results-benign.json", "w"), indent=1)
        print(f"{len(results)} benign changes; alarms: {bad}")
        return
    if len(sys.argv) > 1 and sys.argv[1] == "--seeded":
        items = []
        for d in sorted(glob.glob("/verif/seeded/*/")):
            meta = json.load(open(d + "meta.json"))
            items.append((os.path.basename(d.rstrip("/")), meta["property"], d + "patch.diff"))
        for name, prop, patch in items:
            rc, out = sh(f"git -C /repo apply {patch}")
            if rc != 0:
                print(f"{name}: patch does not apply: {out[-200:]}"); continue
            try:
                green, _ = suite_green()
                rc, viol, cls = run_check(prop)
            finally:
                sh("git -C /repo checkout -- .")
            results.append({"name": name, "property": prop, "suite_green": green, "detected": viol, "exit": rc, "classes": cls})
            print(f"{name:28s} {prop} suite_green={green} detected={viol} {cls[:1]}", flush=True)
    else:
        want = set(sys.argv[1:])
        for name, prop, path, old, new in MUTANTS:
            if want and name not in want:
                continue
            src = open("/repo/" + path).read()
            if src.count(old) != 1:
                print(f"{name}: anchor text found {src.count(old)} times in {path} - skipped");
                results.append({"name": name, "property": prop, "error": "anchor not unique"}); continue
            open("/repo/" + path, "w").write(src.replace(old, new))
            try:
                green, out = suite_green()
                rc, viol, cls = run_check(prop)
            finally:
                sh("git -C /repo checkout -- .")
            results.append({"name": name, "property": prop, "suite_green": green, "detected": viol, "exit": rc, "classes": cls})
            print(f"{name:28s} {prop} suite_green={green} detected={viol} {cls[:1]}", flush=True)
    sh("rm -f /verif/replays/*.json")
    out = "/verif/selftest/results-seeded.json" if "--seeded" in sys.argv else "/verif/selftest/results.json"
    json.dump(results, open(out, "w"), indent=1)
    bad = [r for r in results if r.get("suite_green") and not r.get("detected")]
    print(f"{len(results)} changes, {sum(1 for r in results if r.get('detected'))} detected, {len(bad)} valid-but-missed: {[r['name'] for r in bad]}")

main()
