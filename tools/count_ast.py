#!/usr/bin/env python3
"""Size of the G-ast space for given AstParams (mirrors gen::gen_list), by dynamic programming."""
import functools, sys
def count(max_lines, max_depth, n_block_kinds, n_inline_kinds, unwrap, ws, mb, extra, blank, rich, short, shared_pairs):
    n_leaf = 1 + (1 if extra else 0) + (1 if mb else 0) + (1 if rich else 0) + (1 if blank else 0) + (2 if ws else 0) + 2*n_inline_kinds + 4*shared_pairs
    @functools.lru_cache(None)
    def W(b, d):
        # dict: remaining -> ways
        if b == 0: return ((0,1),)
        res = {b: 1}
        def add(dist, mult=1):
            for r,w in dist: res[r] = res.get(r,0) + w*mult
        add(W(b-1,d), n_leaf)
        if d < max_depth:
            opts = []
            if b >= 2: opts += [2]*n_block_kinds           # range blocks
            if unwrap and b >= 4: opts += [4]*n_block_kinds
            if b >= 2: opts += [2]*shared_pairs            # Block2
            for c in opts:
                for r1,w1 in W(b-c, d+1):
                    add(W(r1,d), w1)
            if short and b >= 3:
                add(W(b-3,d), n_block_kinds)
        return tuple(sorted(res.items()))
    return sum(w for r,w in W(max_lines,0))
if __name__ == "__main__":
    import itertools
    print("quick doc   ", count(6,2,3,1,True,False,False,True,True,False,True,0))
    for ml in (6,7,8):
        for d in (2,3):
            print("doc thorough ml",ml,"d",d, count(ml,d,6,2,True,True,True,True,True,False,True,4), "reduced:", count(ml,d,4,2,True,False,True,True,True,False,True,2))
