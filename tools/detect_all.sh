#!/bin/bash
# run the full detection matrix for every stored seed that has no detection.json yet
for d in /verif/seeded/*/; do
  [ -f "$d/detection.json" ] && continue
  echo "=== $(basename $d)"
  python3 /verif/tools/seedcheck.py detect "$d" 2>&1 | grep -E "VIOLATION|machinery|caught by"
done
