#!/bin/bash
# tools/scratch.sh setup            make a scratch copy of /verif (working tree) and a worktree of /repo HEAD under /tmp/scratch
# tools/scratch.sh detect-all       run the full detection matrix for every /verif/seeded/* there; copies detection.json back
# tools/scratch.sh run <cmd...>     run a command with MC_VERIF_DIR / MC_REPO_DIR pointing at the scratch copy
# tools/scratch.sh clean            remove it again
S=/tmp/scratch
case "$1" in
  setup)
    rm -rf $S/verif; git -C /repo worktree remove --force $S/repo 2>/dev/null; git -C /repo worktree prune
    mkdir -p $S && git -C /repo worktree add -q --detach $S/repo HEAD || exit 1
    rsync -a --exclude target --exclude .git /verif/ $S/verif/
    sed -i "s#/repo/chiritori#$S/repo/chiritori#" $S/verif/mc/Cargo.toml
    MC_VERIF_DIR=$S/verif MC_REPO_DIR=$S/repo $S/verif/check --setup ;;
  detect-all)
    export MC_VERIF_DIR=$S/verif MC_REPO_DIR=$S/repo
    for d in $S/verif/seeded/*/; do
      n=$(basename $d); [ -f "$d/patch.diff" ] || continue
      echo "=== $n"
      python3 $S/verif/tools/seedcheck.py detect "$d" 2>&1 | grep -E "VIOLATION|machinery|caught by"
      cp "$d/detection.json" /verif/seeded/$n/detection.json 2>/dev/null
    done ;;
  run) shift; MC_VERIF_DIR=$S/verif MC_REPO_DIR=$S/repo "$@" ;;
  clean) rm -rf $S/verif; git -C /repo worktree remove --force $S/repo; git -C /repo worktree prune ;;
esac
