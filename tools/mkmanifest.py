#!/usr/bin/env python3
"""Regenerates /verif/MANIFEST.json from the table below (kept in one place so that the
manifest stays valid and in step with what is actually built)."""
import json, sys

BUILT = {
  "C07": dict(
    technique="bounded-exhaustive explicit-state enumeration of the real tokenizer (all atom strings <= N per delimiter pair), intrinsic partition oracle",
    text="Every string of up to N atoms over an adversarial alphabet (delimiter characters, their prefixes, whole delimiters, whitespace, 1-4 byte characters) is tokenized by the real tokenizer for each delimiter pair of the pool and every clause of the partition property is checked on every one; the run also measures that every cell of the textbook matcher automaton was exercised, so the bound exceeds the automaton's diameter. Exhaustive within the bound, no sampling.",
    note="Trusted: the harness's clause checker (60 lines) and rustc. Bounded by atoms per string and by the delimiter pool; delimiters are non-empty.",
    design="3/C07"),
  "C08": dict(
    technique="bounded-exhaustive explicit-state enumeration of the real tokenizer vs. textbook leftmost-shortest reference scan (str::find)",
    text="Every string of up to N atoms over the delimiter characters, their prefixes, the delimiters and one filler is tokenized by the real tokenizer and its tag spans are compared with the textbook scan for delimiter pairs with and without self-overlap; partial matches before and inside tags are exactly what the alphabet generates. Exhaustive within the bound.",
    note="Trusted: the 30-line reference scan built on str::find. Bounded by atoms per string and the delimiter pool.",
    design="3/C08"),
  "C01": dict(
    technique="bounded-exhaustive explicit-state enumeration (AST trees, line sequences, atom strings x delimiter pool x contexts) of clean/list/list_all under catch_unwind with overflow checks",
    text="Every document of three exhaustive spaces (all G-ast trees up to a line budget, all sequences of up to N whole lines over a line alphabet with stray/crossing/unwrap tags, all strings of up to N atoms over characters, delimiters and macro tags incl. blank-body and malformed tags), under each delimiter spelling and surrounding context (multi-byte tail, leading line break, pending wrapper, repetition, 200-line prefix), is passed to clean, list and list_all (pretty and JSON) of the real library built with overflow checks; each call must return and JSON must parse.",
    note="Trusted: catch_unwind + panic hook, serde_json's parser. Bounded by document size (nesting depth <= explored depth; stack exhaustion at very deep nesting is outside the bound) and by the atom alphabets and delimiter pool.",
    design="3/C01"),
  "C02": dict(
    technique="bounded-exhaustive explicit-state enumeration of documents; exact three-class alignment DP of clean's output against reference-model extents",
    text="On every document of the same three exhaustive spaces in which the reference pipeline finds a ready element, an exact dynamic-programming alignment decides whether the output can be obtained from the input by deleting only characters inside ready extents or whitespace while keeping every other character in order. The reference extents are validated against ground truth known by construction on every generated AST document.",
    note="Trusted: the reference pipeline (tokenize/tag/pair/ready/extents, ~300 lines, validated on each AST document against by-construction truth) and the bit-parallel alignment (unit-tested). Bounded by document size and alphabets.",
    design="3/C02"),
  "C03": dict(
    technique="bounded-exhaustive explicit-state enumeration of documents; exact alignment DP requiring every character of every ready extent to be deleted",
    text="Same exploration as C02 with the dual oracle: there must be an alignment in which every character of the union of ready extents is deleted, and the non-whitespace text of the output must equal input minus extents; nesting in pending/skip/unregistered/ready parents and unwrap bodies is part of the enumerated trees.",
    note="Same trusted base as C02.",
    design="3/C03"),
  "C04": dict(
    technique="bounded-exhaustive explicit-state enumeration of documents without ready elements; oracle clean(x)==x byte for byte",
    text="Every document of the three spaces in which the reference finds nothing ready (pending, skip, unregistered, malformed, unclosed, stray, un-unwrappable, plus every junk string of atoms) must be returned unchanged; this is the largest class of the junk spaces and includes every whitespace layout over the atoms around pending elements.",
    note="Trusted: the reference readiness evaluation. Bounded by document size and alphabets.",
    design="3/C04"),
  "C09": dict(
    technique="exhaustive enumeration of the tag grammar (finite product of pools) through the real tokenizer and element parser; differential clean() for opaque values",
    text="Every tag of the stated grammar with 0-2 attributes over the full pools (and 3-4 attributes over reduced pools) is rendered, tokenized and parsed by the real code and compared with the generating term; a second exhaustive family checks that an adversarial quoted value next to real attributes never changes what clean does.",
    note="Trusted: the generator's bookkeeping of the expected term. Bare '*' words produced by the ' \\n * ' separator are ignored on both sides. Bounded by the pools.",
    design="3/C09"),
  "C10": dict(
    technique="bounded-exhaustive enumeration of tag operation sequences through the real tokenizer+parser vs. explicit-stack reference model",
    text="Every sequence of up to N tag operations {open a, open b, close a, close b, close z, text} (all interleavings incl. same-name nesting, crossing and stray tags) is parsed by the real parser; the flattened (open, close, parent) triples and the in-order token coverage must equal the explicit-stack model.",
    note="Trusted: the 30-line stack model. Bounded by sequence length and two tag names plus an unknown closer.",
    design="3/C10"),
  "C14": dict(
    technique="bounded-exhaustive explicit-state enumeration of whitespace-rich documents; in-order verbatim substring oracle on clean's output",
    text="Same exploration as C02 with whitespace-rich filler (interior double spaces, trailing spaces, blank and indented lines): every maximal surviving stretch, trimmed, must occur verbatim and in order in the output (line by line inside unwrapped bodies).",
    note="Trusted: reference extents (as C02) and a greedy left-to-right substring search (sound: earliest match can only help).",
    design="3/C14"),
  "C05": dict(
    technique="exhaustive enumeration of a finite decision grid (now x zone x offset x spelling x delta; malformed classes) on the real evaluator and on clean(), vs. integer civil-time reference",
    text="Every combination of 9 current instants (each written in 3 zones), every UTC offset from -12:00 to +14:00 (15-minute steps quick, 1-minute steps thorough) in both spellings and 25 second-resolution deltas around the boundary is decided twice by the real code (TimeLimitedEvaluator::is_removal and clean on a probe) and compared with an integer-arithmetic reference that does not use chrono; every malformed `to` class and unparseable offset is crossed with all offsets and a far-future now; monotonicity is checked on a multi-element document over all ordered pairs of a now-grid. Every probe stands between two decoy elements (same values under other attribute names) so that a decision cannot leak between elements, and the whole grid is repeated in child processes under three other time zones.",
    note="Trusted: days-from-civil arithmetic (60 lines). chrono leniencies not named by the statement (second 60, unpadded fields, '+09') are not asserted either way.",
    design="3/C05"),
  "C06": dict(
    technique="exhaustive enumeration of a finite product (all target subsets x name forms x skip layouts x orders x tag-name configurations x element tags) on clean(); command-line rows on the real binary",
    text="All subsets of a name pool (prefixes, superstrings, case variants, empty string, every default string shown by --help) are crossed with every way the element can spell its name and carry or quote `skip`, under four tag-name configurations and four element tag names, each probe between two decoy elements; each probe is decided by clean() and compared with the stated rule (several `name` attributes: the first decides). The rows 'no target option', 'flag', 'config file' run the real binary with an oracle that does not go through the library.",
    note="Trusted: the reference tag reader and rule (shared with C02-C04). The CLI rows need the binary built from /repo's tree.",
    design="3/C06"),
  "C11": dict(
    technique="exhaustive enumeration of all unwrap layouts within a parameter box (choice-point DFS) on clean(); line-level oracle by construction",
    text="All documents with one unwrap element (ready / pending / skip), m = 0..M lines between the tags over a five-kind line alphabet, every position of a nested ready or pending element, lines before/after, tag indentation and final newline are cleaned by the real code; exactly the four lines named by the property (and a nested ready element) must disappear from the sequence of non-blank lines, or the document must come back byte-identical where the property says so.",
    note="Trusted: the generator's bookkeeping of which lines are removed. Bounded by M (4 quick, 6 thorough) and the alphabets.",
    design="3/C11"),
  "C12": dict(
    technique="exhaustive enumeration of all indentation layouts within a parameter box (choice-point DFS, unwrap nesting to depth 2-3) on clean(); per-line dedent oracle by construction",
    text="All layouts over indentation unit, tag indent, first-inner-line indent, further inner lines at every indent from 0 to F+E, blank lines, nested default-strategy elements and nested unwrap-blocks are cleaned by the real code and every surviving body line is compared with the dedent rule; nested blocks by sequential composition, asserted where inside-out and outside-in composition agree.",
    note="Trusted: the 15-line dedent rule and the composition bookkeeping.",
    design="3/C12"),
  "C13": dict(
    technique="exhaustive enumeration of all block layouts within a parameter box (choice-point DFS) on clean(); line-identity and blank-line-count oracles by construction",
    text="All layouts of 1-3 ready default-strategy blocks with every combination of 0..M blank / whitespace-only lines before and after each, tag and code indentation in spaces and tabs, optional pending parent, multi-byte lines, lines before/after and final newline are cleaned by the real code; the non-blank output lines must be exactly the surviving input lines byte for byte, and a+b-[a>0 and b>0] blank lines must remain around every isolated block.",
    note="Trusted: generator bookkeeping.",
    design="3/C13"),
  "C20": dict(
    technique="exhaustive enumeration of a finite product of CLI option menus and environments; the real binary is executed for every combination and compared byte for byte with the in-process library",
    text="Every combination of document, mode, input route (file / stdin pipe), output route (stdout / new file / in place), default or custom delimiters and tag names, offset, current instant, target source (none / flags / config file / both / file with empty line), TZ and locale runs the real executable; bytes, exit status and stdout emptiness are compared with the library result for the documented defaults. Documents larger than any I/O buffer (to 220 KiB, multi-byte, three byte alignments) go through every input/output route as well.",
    note="Trusted: the library (its own properties are C01-C19) as oracle for the wrapper; tzdata in the sandbox.",
    design="3/C20"),
  "C15": dict(
    technique="bounded-exhaustive explicit-state enumeration of AST documents; list output vs reference regions, plus a model-free list<->clean link and purity re-execution",
    text="For every G-ast tree within the C15 restrictions the Ready items of list (JSON and pretty) must correspond one-to-one and in order to the reference regions (count, first/last line, highlighted text); independently of the model, cutting the listed regions (located only by their line range and marker columns) out of the source must give clean's non-whitespace text; list is re-executed (twice, around a clean on the same Rc<String>, and under two further configurations on the same thread) to assert purity; every document is also listed with CRLF line ends (line numbers must not drift).",
    note="Trusted: the pretty/JSON parsers of the harness and the reference regions (validated by construction in C02). ASCII delimiters only (marker columns are defined for ASCII text left of the marker).",
    design="3/C15"),
  "C16": dict(
    technique="bounded-exhaustive explicit-state enumeration (AST documents + every column prefix over {space, tab, letter} x line-number-width contexts); rendered items vs a reference renderer written from the statement",
    text="Every item of list and list_all is checked for JSON shape, numbering, status word, pretty-minus-colours == JSON block, and the block text is compared with a reference renderer (marker columns with tab = 4, numbered lines, tabs as four spaces) for regions starting and ending at every column with space/tab/mixed prefixes, single- and multi-line regions, 1-, 2- and 3-digit line numbers, and files whose first byte is a line break.",
    note="Trusted: the 20-line reference renderer. Only regions with ASCII text left of both markers are compared, as the statement says.",
    design="3/C16"),
  "C17": dict(
    technique="bounded-exhaustive explicit-state enumeration of AST documents with pending/ready/skip/unregistered/un-unwrappable parents and children; list_all vs reference region forest",
    text="For every tree of the C17 projection (up to four pending siblings per parent within the line budget, both strategies, nesting to depth 2-3) the (first line, last line, status) sequence of list_all must equal the reference: all Ready regions plus the outstanding Pending regions, nested ones dropped, in source order; and the Ready items must be identical to the plain list.",
    note="Trusted: refmodel::regions (40 lines).",
    design="3/C17"),
  "C18": dict(
    technique="bounded-exhaustive explicit-state enumeration of AST documents x every spelling of the delimiter and tag-name pools; relational (metamorphic) oracle against a baseline spelling on clean, list and list_all",
    text="Every G-ast tree is rendered under each spelling (13 delimiter pairs incl. multi-byte, identical, regex-special and interior-space ones x 4 tag-name pairs); the baseline's clean output with every surviving tag re-spelled must equal the clean output under the spelling, and the list / list_all (line range, status) sequences must be equal. Transitivity decides all ordered pairs.",
    note="Trusted: the re-spelling function (reference tokenizer + first-word rename). Text uses letters, digits and spaces only so that delimiter characters occur only in tags, as the statement requires.",
    design="3/C18"),
  "C19": dict(
    technique="explicit-state breadth-first search over the history graph (states = (text, last configuration), edges = real clean with a larger-or-equal configuration), invariants evaluated in every state",
    text="From every G-ast document with expiry times T1<T2<T3 and marker names a, b, all histories of up to L cleaning steps with non-decreasing times and growing target sets are explored with deduplication on (text, configuration); every reached state must be a fixed point of its configuration (exact), equal up to whitespace to the one-shot result, and free of tags of ready elements.",
    note="Trusted: the BFS (60 lines). Bounded by document size, L (3 quick, 4 thorough) and the 4 x 3 configuration lattice.",
    design="3/C19"),
}

PENDING_REASON = "check designed (DESIGN.md section 3) but its engine is not built yet in this revision; not claimed until it runs"

def main():
    props = [json.loads(l) for l in open('/verif/properties.jsonl')]
    checks, na = [], []
    for p in props:
        pid = p['id']
        if pid in BUILT:
            b = BUILT[pid]
            checks.append({
                "property_id": pid,
                "quick_cmd": f"./check {pid} quick",
                "thorough_cmd": f"./check {pid} thorough",
                "evidence_file": f"/verif/evidence/{pid}.json",
                "replay_cmd_template": "./check --replay {path}",
                "engine": "mc",
                "level_claimed": {"category": "model_checking", "text": b["text"], "design_ref": b["design"]},
                "level_note": b["note"],
                "technique": b["technique"],
            })
        else:
            na.append({"property_id": pid, "reason": PENDING_REASON})
    m = {
        "version": 1,
        "setup_cmd": "./check --setup",
        "hooks": {
            "guard": "chiritori_verif",
            "enable": "no hooks are needed: every observation point is public API (RUSTFLAGS=\"--cfg chiritori_verif\" is reserved and currently guards nothing)",
            "baseline_off_cmd": "cd /repo && cargo test --workspace --no-fail-fast --offline",
            "source_commits": [],
            "add_only": True,
        },
        "engines": [{
            "name": "mc",
            "path": "/verif/mc",
            "serves_properties": sorted(BUILT.keys()),
            "kind_free_text": "Rust explicit-state explorer: exhaustive enumeration of atom sequences / generator choice sequences / histories, each executed on the real chiritori code and compared with a reference model written in Rust",
        }],
        "checks": checks,
        "not_applicable": na,
        "notes": "All checks are bounded-exhaustive (no sampling). Exit 2 = machinery failure (never a verdict). Known findings: /verif/known_findings.jsonl.",
    }
    json.dump(m, open('/verif/MANIFEST.json', 'w'), indent=1)
    print(f"checks={len(checks)} not_applicable={len(na)}")

main()
