#!/usr/bin/env python3
"""Regenerates /verif/MANIFEST.json from the table below (kept in one place so that the
manifest stays valid and in step with what is actually built)."""
import json, sys

BUILT = {
  "C07": dict(
    technique="bounded-exhaustive explicit-state enumeration of the real tokenizer (all atom strings <= N per delimiter pair), intrinsic partition oracle",
    text="Every string of up to N atoms over an adversarial alphabet (delimiter characters, their prefixes, whole delimiters, whitespace, 1-4 byte characters) is tokenized by the real tokenizer for each delimiter pair of the pool and every clause of the partition property is checked on every one; the run also measures that every cell of the textbook matcher automaton was exercised, so the bound exceeds the automaton's diameter. Exhaustive within the bound, no sampling.",
    note="Trusted: the harness's clause checker (60 lines) and rustc. Bounded by atoms per string and by the delimiter pool; delimiters are non-empty.",
    design="3/C07"),
  "C08": dict(
    technique="bounded-exhaustive explicit-state enumeration of the real tokenizer vs. textbook leftmost-shortest reference scan (str::find)",
    text="Every string of up to N atoms over the delimiter characters, their prefixes, the delimiters and one filler is tokenized by the real tokenizer and its tag spans are compared with the textbook scan for delimiter pairs with and without self-overlap; partial matches before and inside tags are exactly what the alphabet generates. Exhaustive within the bound.",
    note="Trusted: the 30-line reference scan built on str::find. Bounded by atoms per string and the delimiter pool.",
    design="3/C08"),
}

PENDING_REASON = "check designed (DESIGN.md section 3) but its engine is not built yet in this revision; not claimed until it runs"

def main():
    props = [json.loads(l) for l in open('/verif/properties.jsonl')]
    checks, na = [], []
    for p in props:
        pid = p['id']
        if pid in BUILT:
            b = BUILT[pid]
            checks.append({
                "property_id": pid,
                "quick_cmd": f"./check {pid} quick",
                "thorough_cmd": f"./check {pid} thorough",
                "evidence_file": f"/verif/evidence/{pid}.json",
                "replay_cmd_template": "./check --replay {path}",
                "engine": "mc",
                "level_claimed": {"category": "model_checking", "text": b["text"], "design_ref": b["design"]},
                "level_note": b["note"],
                "technique": b["technique"],
            })
        else:
            na.append({"property_id": pid, "reason": PENDING_REASON})
    m = {
        "version": 1,
        "setup_cmd": "./check --setup",
        "hooks": {
            "guard": "chiritori_verif",
            "enable": "no hooks are needed: every observation point is public API (RUSTFLAGS=\"--cfg chiritori_verif\" is reserved and currently guards nothing)",
            "baseline_off_cmd": "cd /repo && cargo test --workspace --no-fail-fast --offline",
            "source_commits": [],
            "add_only": True,
        },
        "engines": [{
            "name": "mc",
            "path": "/verif/mc",
            "serves_properties": sorted(BUILT.keys()),
            "kind_free_text": "Rust explicit-state explorer: exhaustive enumeration of atom sequences / generator choice sequences / histories, each executed on the real chiritori code and compared with a reference model written in Rust",
        }],
        "checks": checks,
        "not_applicable": na,
        "notes": "All checks are bounded-exhaustive (no sampling). Exit 2 = machinery failure (never a verdict). Known findings: /verif/known_findings.jsonl.",
    }
    json.dump(m, open('/verif/MANIFEST.json', 'w'), indent=1)
    print(f"checks={len(checks)} not_applicable={len(na)}")

main()
