#!/usr/bin/env python3
"""Seeded-change bookkeeping.
  seedcheck.py verify <seed-dir> [worktree]   confirm in a scratch worktree: suite passes with the patch, demo fails with it and passes without
  seedcheck.py detect <seed-dir> [Cxx ...]    apply the patch to /repo, run the quick checks (default: all 20), undo it; prints the detection row
"""
import json, os, subprocess, sys, shutil, time

ALL = [f"C{i:02d}" for i in range(1, 21)]
V = os.environ.get("MC_VERIF_DIR", "/verif")
R = os.environ.get("MC_REPO_DIR", "/repo")

def sh(cmd, cwd=None, timeout=3600):
    p = subprocess.run(cmd, shell=True, cwd=cwd, capture_output=True, text=True, timeout=timeout)
    return p.returncode, p.stdout + p.stderr

def verify(seed, wt=None):
    seed = os.path.abspath(seed)
    own = wt is None
    if own:
        wt = f"/tmp/wt/verify-{os.getpid()}"
        rc, out = sh(f"git -C /repo worktree add -q --detach {wt} HEAD")
        assert rc == 0, out
    try:
        env = "CARGO_NET_OFFLINE=true "
        rc, out = sh(f"git apply {seed}/patch.diff", cwd=wt)
        if rc != 0:
            return {"ok": False, "why": "patch does not apply: " + out[-400:]}
        rc, out = sh(env + "cargo test --workspace --offline 2>&1 | grep -E '^test result|FAILED|error(\\[|:)'", cwd=wt)
        suite_ok = "FAILED" not in out and "error" not in out and "71 passed" in out
        demo = None
        res = {"suite_passes_with_change": suite_ok}
        if os.path.exists(f"{seed}/demo.rs"):
            os.makedirs(f"{wt}/chiritori/tests", exist_ok=True)
            shutil.copy(f"{seed}/demo.rs", f"{wt}/chiritori/tests/demo.rs")
            demo = env + "cargo test --offline -p chiritori --test demo 2>&1 | tail -30"
            rc1, out1 = sh(env + "cargo test --offline -p chiritori --test demo", cwd=wt)
            sh(f"git apply -R {seed}/patch.diff", cwd=wt)
            rc2, out2 = sh(env + "cargo test --offline -p chiritori --test demo", cwd=wt)
            res.update({"demo_fails_with_change": rc1 != 0, "demo_passes_without_change": rc2 == 0})
            if rc2 != 0: res["demo_without_tail"] = out2[-600:]
        elif os.path.exists(f"{seed}/demo.sh"):
            rc1, out1 = sh(f"WT={wt} bash {seed}/demo.sh {wt}", cwd=wt)
            sh(f"git apply -R {seed}/patch.diff", cwd=wt)
            rc2, out2 = sh(f"WT={wt} bash {seed}/demo.sh {wt}", cwd=wt)
            res.update({"demo_fails_with_change": rc1 != 0, "demo_passes_without_change": rc2 == 0})
            if rc2 != 0: res["demo_without_tail"] = out2[-600:]
        else:
            res["why"] = "no demo.rs / demo.sh"
        res["ok"] = bool(suite_ok and res.get("demo_fails_with_change") and res.get("demo_passes_without_change"))
        return res
    finally:
        if own:
            sh(f"git -C /repo worktree remove --force {wt}")

def detect(seed, props):
    seed = os.path.abspath(seed)
    rc, out = sh(f"git -C {R} status --porcelain")
    assert out.strip() == "", f"{R} working tree is not clean: " + out
    rc, out = sh(f"git -C {R} apply {seed}/patch.diff")
    assert rc == 0, out
    row = {}
    try:
        for p in props:
            t = time.time()
            rc, out = sh(f"./check {p} quick", cwd=V)
            viol = [l for l in out.splitlines() if l.startswith("VIOLATION")]
            cls = [l.strip() for l in out.splitlines() if l.strip().startswith("class=")]
            row[p] = {"exit": rc, "violation": bool(viol), "classes": [c[:160] for c in cls[:3]], "s": round(time.time() - t, 1)}
            mark = "VIOLATION" if viol else ("machinery" if rc == 2 else "-")
            print(f"  {p}: {mark} {cls[0][:140] if cls else ''}", flush=True)
    finally:
        sh(f"git -C {R} checkout -- .")
        sh(f"rm -f {V}/replays/*.json")
    return row

if __name__ == "__main__":
    mode, seed = sys.argv[1], sys.argv[2]
    if mode == "verify":
        r = verify(seed, sys.argv[3] if len(sys.argv) > 3 else None)
        print(json.dumps(r, indent=1))
        sys.exit(0 if r.get("ok") else 1)
    else:
        props = sys.argv[3:] or ALL
        row = detect(seed, props)
        json.dump(row, open(f"{seed}/detection.json", "w"), indent=1)
        caught = [p for p, v in row.items() if v["violation"]]
        print("caught by:", caught)
