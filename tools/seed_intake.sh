#!/bin/bash
# usage: tools/seed_intake.sh Cxx [suffix]   verify /tmp/seeded/Cxx in a fresh worktree and store it as /verif/seeded/Cxx-<suffix>
p=$1; sfx=${2:-a}; d=/verif/seeded/$p-$sfx
out=$(python3 /verif/tools/seedcheck.py verify /tmp/seeded/$p 2>&1 | tr -d '\n')
echo "$p: $out" | cut -c1-300
case "$out" in *'"ok": true'*) ;; *) echo "NOT STORED"; exit 1;; esac
mkdir -p $d; cp /tmp/seeded/$p/patch.diff $d/; cp /tmp/seeded/$p/demo.rs $d/ 2>/dev/null; cp /tmp/seeded/$p/demo.sh $d/ 2>/dev/null; cp /tmp/seeded/$p/meta.json $d/
python3 - "$d" <<'PY'
import json,sys
d=sys.argv[1]
m=json.load(open(d+'/meta.json'))
m['verified_by_me']={"how":"tools/seedcheck.py verify (fresh scratch worktree of /repo HEAD): patch applies; cargo test --workspace --offline passes (71 + doc tests); the demonstration fails with the patch and passes without it","ok":True}
m['origin']="independent sub-agent given only the property text and a scratch worktree"
json.dump(m,open(d+'/meta.json','w'),indent=1)
PY
