//! Run bookkeeping: counters, distinct-case sets, outcome classes, samples, violations,
//! known-finding matching, replay artefacts and the evidence file.

use serde_json::{json, Map, Value};
use std::collections::{BTreeMap, HashMap, HashSet};
use std::hash::{BuildHasherDefault, Hasher};
use std::sync::atomic::{AtomicBool, AtomicU64, Ordering};
use std::sync::Mutex;
use std::time::Instant;

/// root of the verification tree (evidence/, replays/, known_findings.jsonl, target/);
/// `MC_VERIF_DIR` overrides it so that a scratch copy can run beside the real one
pub fn verif_dir() -> String {
    std::env::var("MC_VERIF_DIR").unwrap_or_else(|_| "/verif".to_string())
}

#[derive(Default)]
pub struct IdHasher(u64);
impl Hasher for IdHasher {
    fn finish(&self) -> u64 {
        self.0
    }
    fn write(&mut self, _: &[u8]) {
        unreachable!()
    }
    fn write_u64(&mut self, i: u64) {
        self.0 = i;
    }
}
type IdSet = HashSet<u64, BuildHasherDefault<IdHasher>>;

const SHARDS: usize = 256;
pub struct DistinctSet {
    shards: Vec<Mutex<IdSet>>,
}
impl DistinctSet {
    pub fn new() -> Self {
        DistinctSet {
            shards: (0..SHARDS).map(|_| Mutex::new(IdSet::default())).collect(),
        }
    }
    pub fn insert_batch(&self, hs: &mut Vec<u64>) {
        hs.sort_unstable_by_key(|h| h >> 56);
        let mut i = 0;
        while i < hs.len() {
            let shard = (hs[i] >> 56) as usize;
            let mut g = self.shards[shard].lock().unwrap();
            while i < hs.len() && (hs[i] >> 56) as usize == shard {
                g.insert(hs[i]);
                i += 1;
            }
        }
        hs.clear();
    }
    pub fn len(&self) -> u64 {
        self.shards
            .iter()
            .map(|s| s.lock().unwrap().len() as u64)
            .sum()
    }
}

#[derive(Debug, Clone)]
pub struct Violation {
    pub prop: String,
    /// narrow classification computed by the checker (used for known-finding matching)
    pub class: String,
    /// engine-specific replay payload (must contain "engine")
    pub case: Value,
    pub detail: String,
}

#[derive(Clone, Copy, PartialEq, Debug)]
pub enum Tier {
    Quick,
    Thorough,
}
impl Tier {
    pub fn name(&self) -> &'static str {
        match self {
            Tier::Quick => "quick",
            Tier::Thorough => "thorough",
        }
    }
}

pub struct Report {
    pub prop: String,
    pub tier: Tier,
    pub seed: i64,
    pub start: Instant,
    pub wall_cap_s: f64,
    pub rss_cap: u64,
    evaluations: AtomicU64,
    transitions: AtomicU64,
    traces: AtomicU64,
    states: DistinctSet,
    nontrivial: DistinctSet,
    classes: Mutex<BTreeMap<String, u64>>,
    samples: Mutex<Vec<Value>>,
    violations: Mutex<Vec<Violation>>,
    nviol: AtomicU64,
    nknown: AtomicU64,
    known: Vec<KnownFinding>,
    stop: AtomicBool,
    pub exhaustive: AtomicBool,
    machinery: Mutex<Vec<String>>,
    extra: Mutex<Map<String, Value>>,
    pub rule: Mutex<String>,
    pub assumptions: Mutex<Vec<String>>,
    /// expected enumeration counts registered by engines: (label, expected, counted)
    counts: Mutex<Vec<(String, u64, u64)>>,
}

pub const MAX_VIOLATIONS: u64 = 20;

impl Report {
    pub fn new(prop: &str, tier: Tier) -> Report {
        let seed = std::env::var("VERIF_SEED")
            .ok()
            .and_then(|s| s.parse::<i64>().ok())
            .unwrap_or(0);
        let wall_cap_s = std::env::var("VERIF_WALL_CAP_S")
            .ok()
            .and_then(|s| s.parse::<f64>().ok())
            .unwrap_or(match tier {
                Tier::Quick => 300.0,
                Tier::Thorough => 3600.0,
            });
        Report {
            prop: prop.to_string(),
            tier,
            seed,
            start: Instant::now(),
            wall_cap_s,
            rss_cap: std::env::var("VERIF_RSS_CAP_MB")
                .ok()
                .and_then(|s| s.parse::<u64>().ok())
                .unwrap_or(24 * 1024)
                << 20,
            evaluations: AtomicU64::new(0),
            transitions: AtomicU64::new(0),
            traces: AtomicU64::new(0),
            states: DistinctSet::new(),
            nontrivial: DistinctSet::new(),
            classes: Mutex::new(BTreeMap::new()),
            samples: Mutex::new(vec![]),
            violations: Mutex::new(vec![]),
            nviol: AtomicU64::new(0),
            nknown: AtomicU64::new(0),
            known: load_known_findings(),
            stop: AtomicBool::new(false),
            exhaustive: AtomicBool::new(true),
            machinery: Mutex::new(vec![]),
            extra: Mutex::new(Map::new()),
            rule: Mutex::new(String::new()),
            assumptions: Mutex::new(vec![]),
            counts: Mutex::new(vec![]),
        }
    }
    pub fn local(&self) -> Local<'_> {
        Local {
            r: self,
            evals: 0,
            trans: 0,
            traces: 0,
            classes: HashMap::new(),
            state_buf: Vec::with_capacity(4096),
            nontriv_buf: Vec::with_capacity(4096),
            tick: 0,
        }
    }
    pub fn stopped(&self) -> bool {
        self.stop.load(Ordering::Relaxed)
    }
    pub fn machinery_failure(&self, msg: String) {
        eprintln!("MACHINERY: {msg}");
        self.machinery.lock().unwrap().push(msg);
        self.stop.store(true, Ordering::Relaxed);
    }
    pub fn set_rule(&self, s: &str) {
        *self.rule.lock().unwrap() = s.to_string();
    }
    pub fn assume(&self, s: &str) {
        self.assumptions.lock().unwrap().push(s.to_string());
    }
    pub fn extra(&self, k: &str, v: Value) {
        self.extra.lock().unwrap().insert(k.to_string(), v);
    }
    /// add to a numeric extra counter
    pub fn extra_add(&self, k: &str, n: u64) {
        let mut g = self.extra.lock().unwrap();
        let cur = g.get(k).and_then(|v| v.as_u64()).unwrap_or(0);
        g.insert(k.to_string(), json!(cur + n));
    }
    /// Engines register closed-form expectations for their enumeration counts.
    pub fn expect_count(&self, label: &str, expected: u64, counted: u64) {
        self.counts
            .lock()
            .unwrap()
            .push((label.to_string(), expected, counted));
    }
    pub fn sample(&self, v: Value) {
        let mut g = self.samples.lock().unwrap();
        if g.len() < 12 {
            g.push(v);
        }
    }
    pub fn samples_len(&self) -> usize {
        self.samples.lock().unwrap().len()
    }
    pub fn violation(&self, v: Violation) {
        // counterexamples of an open known finding are counted but never stop the exploration
        if self
            .known
            .iter()
            .any(|k| k.status == "open" && k.property == v.prop && k.class == v.class)
        {
            self.nknown.fetch_add(1, Ordering::Relaxed);
            let mut g = self.violations.lock().unwrap();
            if g.iter().filter(|x| x.class == v.class).count() < 2 {
                g.push(v);
            }
            return;
        }
        let n = self.nviol.fetch_add(1, Ordering::Relaxed);
        let mut g = self.violations.lock().unwrap();
        // keep at most a handful per class so that several classes can be reported
        let same = g.iter().filter(|x| x.class == v.class).count();
        if same < 3 {
            g.push(v);
        }
        let unknown_kept = g
            .iter()
            .filter(|x| !self.known.iter().any(|k| k.status == "open" && k.property == x.prop && k.class == x.class))
            .count() as u64;
        if n + 1 >= MAX_VIOLATIONS * 50 || unknown_kept >= MAX_VIOLATIONS {
            self.stop.store(true, Ordering::Relaxed);
        }
    }
    pub fn check_deadline(&self) {
        if let Some(rss) = rss_bytes() {
            if rss > self.rss_cap {
                self.exhaustive.store(false, Ordering::Relaxed);
                self.machinery_failure(format!(
                    "resident-set cap of {} MiB hit; run is not exhaustive",
                    self.rss_cap >> 20
                ));
            }
        }
        if self.start.elapsed().as_secs_f64() > self.wall_cap_s {
            self.exhaustive.store(false, Ordering::Relaxed);
            self.machinery_failure(format!(
                "wall-clock cap of {} s hit; run is not exhaustive",
                self.wall_cap_s
            ));
        }
    }

    /// Child mode (C01's plain-release pass): dump counters and kept violations as JSON.
    pub fn child_summary(&self) -> Value {
        json!({
            "evaluations": self.evaluations.load(Ordering::Relaxed),
            "states": self.states.len(),
            "violations_total_observed": self.nviol.load(Ordering::Relaxed),
            "stopped_early": self.stopped(),
            "machinery_failures": self.machinery.lock().unwrap().clone(),
            "outcome_classes": self.classes.lock().unwrap().clone(),
            "violations": self.violations.lock().unwrap().iter().map(|v| json!({
                "prop": v.prop, "class": v.class, "case": v.case, "detail": v.detail})).collect::<Vec<_>>(),
        })
    }

    /// Finish the run: classify violations against the known-findings file, re-execute each
    /// reported counterexample twice through `replay` (identical observation required),
    /// write replay artefacts and the evidence file, print the interface lines.
    /// Returns the process exit code.
    pub fn finish(&self, replay: &dyn Fn(&Value) -> Vec<Violation>) -> i32 {
        let wall = self.start.elapsed().as_secs_f64();
        let known = self.known.clone();
        let viols = self.violations.lock().unwrap().clone();
        let total_viol = self.nviol.load(Ordering::Relaxed);
        let mut unknown: Vec<(Violation, String)> = vec![];
        let mut known_hit: BTreeMap<String, (String, u64)> = BTreeMap::new();
        let mut seen_classes: HashSet<String> = HashSet::new();
        for v in &viols {
            // determinism: the same case must fail identically twice
            let r1 = replay(&v.case);
            let r2 = replay(&v.case);
            let k1: Vec<_> = r1.iter().map(|x| (x.prop.clone(), x.class.clone(), x.detail.clone())).collect();
            let k2: Vec<_> = r2.iter().map(|x| (x.prop.clone(), x.class.clone(), x.detail.clone())).collect();
            if k1 != k2 {
                self.machinery_failure(format!(
                    "uncontrolled nondeterminism: replay of {} differs between two executions",
                    v.case
                ));
                continue;
            }
            if !r1.iter().any(|x| x.prop == v.prop && x.class == v.class) {
                self.machinery_failure(format!(
                    "replay of a reported counterexample does not reproduce it: prop={} class={} case={}",
                    v.prop, v.class, v.case
                ));
                continue;
            }
            if let Some(kf) = known
                .iter()
                .find(|k| k.status == "open" && k.property == v.prop && k.class == v.class)
            {
                let e = known_hit
                    .entry(kf.class.clone())
                    .or_insert((kf.what.clone(), 0));
                e.1 += 1;
                continue;
            }
            if !seen_classes.insert(v.class.clone()) {
                continue;
            }
            let path = write_replay(v);
            unknown.push((v.clone(), path));
        }
        for (class, (what, _)) in &known_hit {
            println!("KNOWN-FINDING: property={} {} [{}]", self.prop, what, class);
        }
        for (v, path) in &unknown {
            println!("VIOLATION property={} replay={}", v.prop, path);
            println!("  class={} detail={}", v.class, truncate(&v.detail, 600));
        }
        // enumeration count checks
        let counts = self.counts.lock().unwrap().clone();
        for (label, exp, got) in &counts {
            if *exp == u64::MAX {
                continue; // cross-check skipped (space above the single-threaded count cap)
            }
            if exp != got && !self.stopped() {
                self.exhaustive.store(false, Ordering::Relaxed);
                self.machinery_failure(format!(
                    "enumeration count mismatch for {label}: closed form {exp}, counted {got}"
                ));
            }
        }
        let machinery = self.machinery.lock().unwrap().clone();
        let stopped_early = self.stopped();
        let exhaustive =
            self.exhaustive.load(Ordering::Relaxed) && !stopped_early && machinery.is_empty();

        let mut cov = Map::new();
        let states = self.states.len();
        cov.insert("states".into(), json!(states));
        cov.insert(
            "transitions".into(),
            json!(self.transitions.load(Ordering::Relaxed)),
        );
        cov.insert(
            "traces_validated_against_impl".into(),
            json!(self.traces.load(Ordering::Relaxed)),
        );
        cov.insert(
            "evaluations".into(),
            json!(self.evaluations.load(Ordering::Relaxed)),
        );
        cov.insert("distinct_nontrivial".into(), json!(self.nontrivial.len()));
        cov.insert("rule".into(), json!(self.rule.lock().unwrap().clone()));
        cov.insert("exhaustive".into(), json!(exhaustive));
        cov.insert(
            "outcome_classes".into(),
            json!(self.classes.lock().unwrap().clone()),
        );
        cov.insert(
            "enumeration_counts".into(),
            json!(counts
                .iter()
                .map(|(l, e, g)| if *e == u64::MAX {
                    json!({"space": l, "closed_form": "not cross-checked (above the single-threaded count cap)", "counted": g})
                } else {
                    json!({"space": l, "closed_form": e, "counted": g})
                })
                .collect::<Vec<_>>()),
        );
        cov.insert(
            "known_findings_matched".into(),
            json!(known_hit
                .iter()
                .map(|(c, (w, n))| json!({"class": c, "what": w, "counterexamples_kept": n}))
                .collect::<Vec<_>>()),
        );
        cov.insert("violations_total_observed".into(), json!(total_viol));
        cov.insert(
            "known_finding_counterexamples_observed".into(),
            json!(self.nknown.load(Ordering::Relaxed)),
        );
        cov.insert("machinery_failures".into(), json!(machinery));
        let mut samples = self.samples.lock().unwrap().clone();
        if samples.is_empty() {
            samples.push(json!("<no sample recorded>"));
        }
        cov.insert("samples".into(), Value::Array(samples));
        for (k, v) in self.extra.lock().unwrap().iter() {
            cov.insert(k.clone(), v.clone());
        }
        let ev = json!({
            "property_id": self.prop,
            "tier": self.tier.name(),
            "seed": self.seed,
            "level": "model_checking",
            "coverage": Value::Object(cov),
            "assumptions": self.assumptions.lock().unwrap().clone(),
            "wall_s": (wall * 1000.0).round() / 1000.0,
            "violations": unknown.len(),
        });
        let path = format!("{}/evidence/{}.json", verif_dir(), self.prop);
        let _ = std::fs::create_dir_all(format!("{}/evidence", verif_dir()));
        if let Err(e) = std::fs::write(&path, serde_json::to_string_pretty(&ev).unwrap() + "\n") {
            eprintln!("MACHINERY: cannot write evidence {path}: {e}");
            return 2;
        }
        eprintln!(
            "[{} {}] states={} transitions={} evaluations={} nontrivial={} exhaustive={} violations={} known={} wall={:.1}s",
            self.prop,
            self.tier.name(),
            states,
            self.transitions.load(Ordering::Relaxed),
            self.evaluations.load(Ordering::Relaxed),
            self.nontrivial.len(),
            exhaustive,
            unknown.len(),
            known_hit.len(),
            wall
        );
        if !unknown.is_empty() {
            1
        } else if !machinery.is_empty() {
            2
        } else {
            0
        }
    }
}

fn truncate(s: &str, n: usize) -> String {
    if s.chars().count() <= n {
        s.to_string()
    } else {
        let t: String = s.chars().take(n).collect();
        format!("{t}…")
    }
}

/// Per-thread accumulator; flushed into the shared report on drop.
pub struct Local<'r> {
    pub r: &'r Report,
    evals: u64,
    trans: u64,
    traces: u64,
    classes: HashMap<&'static str, u64>,
    state_buf: Vec<u64>,
    nontriv_buf: Vec<u64>,
    tick: u32,
}
impl<'r> Local<'r> {
    #[inline]
    pub fn eval(&mut self) {
        self.evals += 1;
        self.tick += 1;
        if self.tick >= 1 << 14 {
            self.tick = 0;
            self.r.check_deadline();
        }
    }
    #[inline]
    pub fn transition(&mut self, n: u64) {
        self.trans += n;
    }
    #[inline]
    pub fn trace_validated(&mut self, n: u64) {
        self.traces += n;
    }
    #[inline]
    pub fn state(&mut self, h: u64) {
        self.state_buf.push(h);
        if self.state_buf.len() >= 4096 {
            self.r.states.insert_batch(&mut self.state_buf);
        }
    }
    #[inline]
    pub fn nontrivial(&mut self, h: u64) {
        self.nontriv_buf.push(h);
        if self.nontriv_buf.len() >= 4096 {
            self.r.nontrivial.insert_batch(&mut self.nontriv_buf);
        }
    }
    #[inline]
    pub fn class(&mut self, c: &'static str) {
        *self.classes.entry(c).or_insert(0) += 1;
    }
    pub fn class_dyn(&mut self, c: &str) {
        *self
            .r
            .classes
            .lock()
            .unwrap()
            .entry(c.to_string())
            .or_insert(0) += 1;
    }
    pub fn violation(&mut self, v: Violation) {
        self.r.violation(v);
    }
    pub fn stopped(&self) -> bool {
        self.r.stopped()
    }
    pub fn flush(&mut self) {
        self.r.evaluations.fetch_add(self.evals, Ordering::Relaxed);
        self.r.transitions.fetch_add(self.trans, Ordering::Relaxed);
        self.r.traces.fetch_add(self.traces, Ordering::Relaxed);
        self.evals = 0;
        self.trans = 0;
        self.traces = 0;
        self.r.states.insert_batch(&mut self.state_buf);
        self.r.nontrivial.insert_batch(&mut self.nontriv_buf);
        let mut g = self.r.classes.lock().unwrap();
        for (k, v) in self.classes.drain() {
            *g.entry(k.to_string()).or_insert(0) += v;
        }
    }
}
impl<'r> Drop for Local<'r> {
    fn drop(&mut self) {
        self.flush();
    }
}

#[derive(Debug, Clone)]
pub struct KnownFinding {
    pub status: String,
    pub property: String,
    pub class: String,
    pub what: String,
}

pub fn load_known_findings() -> Vec<KnownFinding> {
    let path = format!("{}/known_findings.jsonl", verif_dir());
    let Ok(text) = std::fs::read_to_string(&path) else {
        return vec![];
    };
    text.lines()
        .filter(|l| !l.trim().is_empty() && !l.trim_start().starts_with('#'))
        .filter_map(|l| serde_json::from_str::<Value>(l).ok())
        .map(|v| KnownFinding {
            status: v["status"].as_str().unwrap_or("").to_string(),
            property: v["property"].as_str().unwrap_or("").to_string(),
            class: v["class"].as_str().unwrap_or("").to_string(),
            what: v["what"].as_str().unwrap_or("").to_string(),
        })
        .collect()
}

pub fn write_replay(v: &Violation) -> String {
    let dir = format!("{}/replays", verif_dir());
    let _ = std::fs::create_dir_all(&dir);
    let body = json!({
        "property": v.prop,
        "class": v.class,
        "detail": v.detail,
        "case": v.case,
    });
    let text = serde_json::to_string_pretty(&body).unwrap();
    let h = crate::harness::hash64(&[v.prop.as_bytes(), v.class.as_bytes(), v.case.to_string().as_bytes()]);
    let path = format!("{dir}/{}-{:012x}.json", v.prop, h & 0xffff_ffff_ffff);
    let _ = std::fs::write(&path, text + "\n");
    path
}

fn rss_bytes() -> Option<u64> {
    let s = std::fs::read_to_string("/proc/self/statm").ok()?;
    let pages: u64 = s.split_whitespace().nth(1)?.parse().ok()?;
    Some(pages * 4096)
}
