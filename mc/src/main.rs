#![allow(dead_code)]
//! mc — bounded-exhaustive explicit-state exploration of piyoppi/chiritori against a
//! reference model. Usage: mc <C01..C20> <quick|thorough> | mc replay <file>

mod align;
mod explore;
mod gen;
mod harness;
mod props;
mod refmodel;
mod report;

use report::{Report, Tier, Violation};
use serde_json::Value;

fn replay_case(prop: &str, case: &Value) -> Vec<Violation> {
    match case["engine"].as_str().unwrap_or("") {
        "tok" => props::tok::replay(prop, case),
        "pair" => props::pair::replay(case),
        "rename" => props::rename::replay(case),
        "history" => props::history::replay(case),
        "listing" => props::listing::replay(prop, case),
        "layout11" | "layout12" | "layout13" => props::layout::replay(case),
        "marker" => props::marker::replay(case),
        "cli" => props::cli::replay(prop, case),
        "time" | "time-mono" => props::time::replay(case),
        "doc" => props::doc::replay(prop, case),
        "tag" | "tag-opaque" => props::tag::replay(case),
        other => {
            eprintln!("MACHINERY: unknown replay engine {other:?}");
            vec![]
        }
    }
}

fn main() {
    harness::install_panic_hook();
    let args: Vec<String> = std::env::args().collect();
    if args.len() >= 3 && args[1] == "replay" {
        let text = std::fs::read_to_string(&args[2]).unwrap_or_else(|e| {
            eprintln!("cannot read {}: {e}", args[2]);
            std::process::exit(2)
        });
        let v: Value = serde_json::from_str(&text).unwrap_or_else(|e| {
            eprintln!("bad replay file: {e}");
            std::process::exit(2)
        });
        let prop = v["property"].as_str().unwrap_or("").to_string();
        let out = replay_case(&prop, &v["case"]);
        let mut code = 0;
        for x in &out {
            if x.prop == prop {
                println!("VIOLATION property={} replay={}", x.prop, args[2]);
                println!("  class={} detail={}", x.class, x.detail);
                code = 1;
            }
        }
        if code == 0 {
            println!("replay: property {prop} holds on this case");
        }
        std::process::exit(code);
    }
    if args.len() < 3 {
        eprintln!("usage: mc <C01..C20> <quick|thorough> | mc replay <file>");
        std::process::exit(2);
    }
    let prop = args[1].as_str();
    let tier = match args[2].as_str() {
        "quick" => Tier::Quick,
        "thorough" => Tier::Thorough,
        _ => {
            eprintln!("tier must be quick or thorough");
            std::process::exit(2)
        }
    };
    let r = Report::new(prop, tier);
    match prop {
        "C07" | "C08" => props::tok::run(&r, prop),
        "C01" | "C02" | "C03" | "C04" | "C14" => {
            props::doc::run(&r, props::doc::P::parse(prop).unwrap())
        }
        "C05" => props::time::run(&r),
        "C06" => props::marker::run(&r),
        "C20" => props::cli::run(&r),
        "C11" | "C12" | "C13" => props::layout::run(&r, prop),
        "C15" | "C16" | "C17" => props::listing::run(&r, prop),
        "C18" => props::rename::run(&r),
        "C19" => props::history::run(&r),
        "C09" => props::tag::run(&r),
        "C10" => props::pair::run(&r),
        _ => {
            eprintln!("no engine for property {prop}");
            std::process::exit(2);
        }
    }
    let p = prop.to_string();
    let code = r.finish(&move |case| replay_case(&p, case));
    std::process::exit(code);
}
