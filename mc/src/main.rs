#![allow(dead_code)]
//! mc — bounded-exhaustive explicit-state exploration of piyoppi/chiritori against a
//! reference model. Usage: mc <C01..C20> <quick|thorough> | mc replay <file>

mod align;
mod explore;
mod gen;
mod harness;
mod props;
mod refmodel;
mod report;

use report::{Report, Tier, Violation};
use serde_json::Value;

fn replay_case(prop: &str, case: &Value) -> Vec<Violation> {
    match case["engine"].as_str().unwrap_or("") {
        "tok" => props::tok::replay(prop, case),
        "pair" => props::pair::replay(case),
        "rename" => props::rename::replay(case),
        "history" => props::history::replay(case),
        "listing" | "listing-unordered" | "listing-load" => props::listing::replay(prop, case),
        "layout11" | "layout12" | "layout13" => props::layout::replay(case),
        "marker" | "marker-dup" => props::marker::replay(case),
        "cli" => props::cli::replay(prop, case),
        "time" | "time-mono" | "time-dup" => props::time::replay(case),
        "doc" => props::doc::replay(prop, case),
        "doc-plain" => replay_plain(prop, case),
        "child-tz" => replay_child_tz(prop, case),
        "tag" | "tag-opaque" => props::tag::replay(case),
        other => {
            eprintln!("MACHINERY: unknown replay engine {other:?}");
            vec![]
        }
    }
}

fn plain_bin() -> String {
    format!("{}/target/mc/plain/mc", report::verif_dir())
}

/// C01's second observation point: the same exploration on a plain `--release` build of harness
/// and subject (no overflow checks, no debug assertions), run as a child process.
fn plain_release_pass(r: &Report, tier: &str) {
    if !std::path::Path::new(&plain_bin()).exists() {
        r.machinery_failure(format!("{} not built (the driver builds it for C01)", plain_bin()));
        return;
    }
    let out = std::process::Command::new(plain_bin())
        .args(["C01", tier])
        .env("MC_CHILD", "1")
        .output();
    let out = match out {
        Ok(o) => o,
        Err(e) => {
            r.machinery_failure(format!("cannot run {}: {e}", plain_bin()));
            return;
        }
    };
    if !out.status.success() {
        r.machinery_failure(format!(
            "plain-release child terminated abnormally ({:?}); not a verdict",
            out.status
        ));
        return;
    }
    let text = String::from_utf8_lossy(&out.stdout);
    let Some(line) = text.lines().rev().find(|l| l.starts_with('{')) else {
        r.machinery_failure("plain-release child produced no summary".into());
        return;
    };
    let v: Value = match serde_json::from_str(line) {
        Ok(v) => v,
        Err(e) => {
            r.machinery_failure(format!("plain-release child summary unreadable: {e}"));
            return;
        }
    };
    for m in v["machinery_failures"].as_array().cloned().unwrap_or_default() {
        r.machinery_failure(format!("plain-release child: {m}"));
    }
    for x in v["violations"].as_array().cloned().unwrap_or_default() {
        let mut case = x["case"].clone();
        case["engine"] = Value::String("doc-plain".into());
        r.violation(Violation {
            prop: "C01".into(),
            class: format!("plain-release:{}", x["class"].as_str().unwrap_or("?")),
            case,
            detail: format!("[plain --release build] {}", x["detail"].as_str().unwrap_or("")),
        });
    }
    r.extra(
        "plain_release_build",
        serde_json::json!({"evaluations": v["evaluations"], "states": v["states"],
            "violations_total_observed": v["violations_total_observed"], "outcome_classes": v["outcome_classes"]}),
    );
}

/// Run the same property exploration in a child process under another time zone and merge its
/// violations (C05: the decision must not depend on the process environment).
pub fn child_pass(r: &Report, prop: &str, tz: &str) {
    let exe = std::env::current_exe().unwrap_or_else(|_| "/verif/target/mc/release/mc".into());
    let out = std::process::Command::new(&exe)
        .args([prop, r.tier.name()])
        .env("MC_CHILD", "1")
        .env("TZ", tz)
        .output();
    let out = match out {
        Ok(o) if o.status.success() => o,
        Ok(o) => {
            r.machinery_failure(format!("child under TZ={tz} terminated abnormally ({:?})", o.status));
            return;
        }
        Err(e) => {
            r.machinery_failure(format!("cannot run child under TZ={tz}: {e}"));
            return;
        }
    };
    let text = String::from_utf8_lossy(&out.stdout);
    let Some(v) = text
        .lines()
        .rev()
        .find(|l| l.starts_with('{'))
        .and_then(|l| serde_json::from_str::<Value>(l).ok())
    else {
        r.machinery_failure(format!("child under TZ={tz} produced no summary"));
        return;
    };
    for m in v["machinery_failures"].as_array().cloned().unwrap_or_default() {
        r.machinery_failure(format!("child under TZ={tz}: {m}"));
    }
    for x in v["violations"].as_array().cloned().unwrap_or_default() {
        let mut case = x["case"].clone();
        case["child_engine"] = case["engine"].clone();
        case["engine"] = Value::String("child-tz".into());
        case["tz"] = Value::String(tz.into());
        r.violation(Violation {
            prop: prop.into(),
            class: format!("TZ={tz}:{}", x["class"].as_str().unwrap_or("?")),
            case,
            detail: format!("[process TZ={tz}] {}", x["detail"].as_str().unwrap_or("")),
        });
    }
    r.extra(
        &format!("child_pass_TZ_{tz}"),
        serde_json::json!({"evaluations": v["evaluations"], "states": v["states"],
            "violations_total_observed": v["violations_total_observed"]}),
    );
}

/// replay of a counterexample found by a child pass: run a child under the same zone
fn replay_child_tz(prop: &str, case: &Value) -> Vec<Violation> {
    let tz = case["tz"].as_str().unwrap_or("UTC").to_string();
    let dir = format!("{}/target/tmp", report::verif_dir());
    let _ = std::fs::create_dir_all(&dir);
    let path = format!("{dir}/child-replay-{}.json", std::process::id());
    let mut c = case.clone();
    c["engine"] = c["child_engine"].clone();
    let body = serde_json::json!({"property": prop, "case": c});
    if std::fs::write(&path, body.to_string()).is_err() {
        return vec![];
    }
    let exe = std::env::current_exe().unwrap_or_else(|_| "/verif/target/mc/release/mc".into());
    let out = std::process::Command::new(&exe)
        .args(["replay", &path])
        .env("MC_CHILD", "1")
        .env("TZ", &tz)
        .output();
    let _ = std::fs::remove_file(&path);
    let Ok(out) = out else { return vec![] };
    let text = String::from_utf8_lossy(&out.stdout);
    let mut v = vec![];
    for l in text.lines() {
        if let Some(rest) = l.strip_prefix("  class=") {
            let (class, detail) = rest.split_once(" detail=").unwrap_or((rest, ""));
            v.push(Violation {
                prop: prop.into(),
                class: format!("TZ={tz}:{class}"),
                case: case.clone(),
                detail: format!("[process TZ={tz}] {detail}"),
            });
        }
    }
    v
}

/// replay of a plain-release counterexample: run the plain binary on it
fn replay_plain(prop: &str, case: &Value) -> Vec<Violation> {
    let dir = format!("{}/target/tmp", report::verif_dir());
    let _ = std::fs::create_dir_all(&dir);
    let path = format!("{dir}/plain-replay-{}.json", std::process::id());
    let mut c = case.clone();
    c["engine"] = Value::String("doc".into());
    let body = serde_json::json!({"property": prop, "case": c});
    if std::fs::write(&path, body.to_string()).is_err() {
        return vec![];
    }
    let out = std::process::Command::new(plain_bin())
        .args(["replay", &path])
        .env("MC_CHILD", "1")
        .output();
    let _ = std::fs::remove_file(&path);
    let Ok(out) = out else { return vec![] };
    let text = String::from_utf8_lossy(&out.stdout);
    let mut v = vec![];
    for l in text.lines() {
        if let Some(rest) = l.strip_prefix("  class=") {
            let (class, detail) = rest.split_once(" detail=").unwrap_or((rest, ""));
            v.push(Violation {
                prop: prop.into(),
                class: format!("plain-release:{class}"),
                case: case.clone(),
                detail: format!("[plain --release build] {detail}"),
            });
        }
    }
    v
}

fn main() {
    harness::install_panic_hook();
    let args: Vec<String> = std::env::args().collect();
    if args.len() >= 3 && args[1] == "replay" {
        let text = std::fs::read_to_string(&args[2]).unwrap_or_else(|e| {
            eprintln!("cannot read {}: {e}", args[2]);
            std::process::exit(2)
        });
        let v: Value = serde_json::from_str(&text).unwrap_or_else(|e| {
            eprintln!("bad replay file: {e}");
            std::process::exit(2)
        });
        let prop = v["property"].as_str().unwrap_or("").to_string();
        let out = replay_case(&prop, &v["case"]);
        let mut code = 0;
        for x in &out {
            if x.prop == prop {
                println!("VIOLATION property={} replay={}", x.prop, args[2]);
                println!("  class={} detail={}", x.class, x.detail);
                code = 1;
            }
        }
        if code == 0 {
            println!("replay: property {prop} holds on this case");
        }
        std::process::exit(code);
    }
    if args.len() < 3 {
        eprintln!("usage: mc <C01..C20> <quick|thorough> | mc replay <file>");
        std::process::exit(2);
    }
    let prop = args[1].as_str();
    let tier = match args[2].as_str() {
        "quick" => Tier::Quick,
        "thorough" => Tier::Thorough,
        _ => {
            eprintln!("tier must be quick or thorough");
            std::process::exit(2)
        }
    };
    let r = Report::new(prop, tier);
    match prop {
        "C07" | "C08" => props::tok::run(&r, prop),
        "C01" | "C02" | "C03" | "C04" | "C14" => {
            props::doc::run(&r, props::doc::P::parse(prop).unwrap())
        }
        "C05" => props::time::run(&r),
        "C06" => props::marker::run(&r),
        "C20" => props::cli::run(&r),
        "C11" | "C12" | "C13" => props::layout::run(&r, prop),
        "C15" | "C16" | "C17" => props::listing::run(&r, prop),
        "C18" => props::rename::run(&r),
        "C19" => props::history::run(&r),
        "C09" => props::tag::run(&r),
        "C10" => props::pair::run(&r),
        _ => {
            eprintln!("no engine for property {prop}");
            std::process::exit(2);
        }
    }
    if std::env::var("MC_CHILD").is_ok() {
        println!("{}", r.child_summary());
        std::process::exit(0);
    }
    if prop == "C01" {
        plain_release_pass(&r, args[2].as_str());
    }
    let p = prop.to_string();
    let code = r.finish(&move |case| replay_case(&p, case));
    std::process::exit(code);
}
