//! Binding to the subject: every call into chiritori goes through here, under catch_unwind,
//! with a silent panic hook that records location and message.

use chiritori::chiritori::{
    clean, list, list_all, ChiritoriConfiguration, ListFormat, RemovalMarkerConfiguration,
    TimeLimitedConfiguration,
};
use serde_json::{json, Value};
use std::cell::RefCell;
use std::collections::HashSet;
use std::panic::{catch_unwind, AssertUnwindSafe};
use std::rc::Rc;

thread_local! {
    static LAST_PANIC: RefCell<Option<String>> = const { RefCell::new(None) };
    /// When > 0 the current thread is inside a guarded call into the subject.
    static GUARD_DEPTH: RefCell<u32> = const { RefCell::new(0) };
}

pub fn install_panic_hook() {
    let default = std::panic::take_hook();
    std::panic::set_hook(Box::new(move |info| {
        let guarded = GUARD_DEPTH.with(|g| *g.borrow() > 0);
        if guarded {
            let loc = info
                .location()
                .map(|l| format!("{}:{}", l.file(), l.line()))
                .unwrap_or_else(|| "?".into());
            let msg = if let Some(s) = info.payload().downcast_ref::<&str>() {
                (*s).to_string()
            } else if let Some(s) = info.payload().downcast_ref::<String>() {
                s.clone()
            } else {
                "<non-string panic>".to_string()
            };
            LAST_PANIC.with(|p| *p.borrow_mut() = Some(format!("{loc}: {msg}")));
        } else {
            // a panic in the harness itself: machinery failure, be loud
            default(info);
        }
    }));
}

#[derive(Debug, Clone, PartialEq)]
pub struct PanicInfo {
    pub site: String,
}

/// Run `f` (a call into the subject) and turn a panic into a value.
pub fn guarded<T>(f: impl FnOnce() -> T) -> Result<T, PanicInfo> {
    GUARD_DEPTH.with(|g| *g.borrow_mut() += 1);
    let r = catch_unwind(AssertUnwindSafe(f));
    GUARD_DEPTH.with(|g| *g.borrow_mut() -= 1);
    r.map_err(|_| PanicInfo {
        site: LAST_PANIC
            .with(|p| p.borrow_mut().take())
            .unwrap_or_else(|| "?".into()),
    })
}

/// Normalise a panic site to "file:line" (dropping the message) for classification.
pub fn panic_site_key(site: &str) -> String {
    // "path/to/file.rs:123: message"
    let mut parts = site.splitn(3, ':');
    let file = parts.next().unwrap_or("?");
    let line = parts.next().unwrap_or("?");
    let file = file.rsplit('/').next().unwrap_or(file);
    format!("{file}:{line}")
}

/// Configuration as the harness sees it (strings only; the reference model interprets these
/// with its own arithmetic, the subject with chrono).
#[derive(Debug, Clone, PartialEq)]
pub struct Cfg {
    pub tl: String,
    pub rm: String,
    /// RFC 3339 instant, e.g. 2020-01-01T00:00:00+00:00
    pub now: String,
    pub off: String,
    pub targets: Vec<String>,
}

pub const NOW_DEFAULT: &str = "2020-01-01T00:00:00+00:00";
pub const TO_EXPIRED: &str = "2000-01-01 00:00:00";
pub const TO_FUTURE: &str = "2999-01-01 00:00:00";

impl Cfg {
    pub fn standard() -> Cfg {
        Cfg {
            tl: "tl".into(),
            rm: "rm".into(),
            now: NOW_DEFAULT.into(),
            off: "+00:00".into(),
            targets: vec!["a".into()],
        }
    }
    pub fn with_names(tl: &str, rm: &str) -> Cfg {
        Cfg {
            tl: tl.into(),
            rm: rm.into(),
            ..Cfg::standard()
        }
    }
    pub fn to_json(&self) -> Value {
        json!({"tl": self.tl, "rm": self.rm, "now": self.now, "off": self.off, "targets": self.targets})
    }
    pub fn from_json(v: &Value) -> Option<Cfg> {
        Some(Cfg {
            tl: v.get("tl")?.as_str()?.to_string(),
            rm: v.get("rm")?.as_str()?.to_string(),
            now: v.get("now")?.as_str()?.to_string(),
            off: v.get("off")?.as_str()?.to_string(),
            targets: v
                .get("targets")?
                .as_array()?
                .iter()
                .filter_map(|t| t.as_str().map(|s| s.to_string()))
                .collect(),
        })
    }
    pub fn to_impl(&self) -> ChiritoriConfiguration {
        let current = chrono::DateTime::parse_from_rfc3339(&self.now)
            .unwrap_or_else(|e| panic!("harness: bad now {:?}: {e}", self.now))
            .with_timezone(&chrono::Local);
        ChiritoriConfiguration {
            time_limited_configuration: TimeLimitedConfiguration {
                tag_name: self.tl.clone(),
                time_offset: self.off.clone(),
                current,
            },
            removal_marker_configuration: RemovalMarkerConfiguration {
                tag_name: self.rm.clone(),
                targets: self.targets.iter().cloned().collect::<HashSet<_>>(),
            },
        }
    }
}

pub fn run_clean(src: &str, ds: &str, de: &str, cfg: &Cfg) -> Result<String, PanicInfo> {
    let c = cfg.to_impl();
    let s = Rc::new(src.to_string());
    let d = (ds.to_string(), de.to_string());
    guarded(move || clean(s, d, c))
}

#[derive(Debug, Clone, Copy, PartialEq)]
pub enum ListMode {
    List,
    ListAll,
}

pub fn run_list(
    src: &str,
    ds: &str,
    de: &str,
    cfg: &Cfg,
    mode: ListMode,
    json: bool,
) -> Result<Result<String, String>, PanicInfo> {
    let c = cfg.to_impl();
    let s = Rc::new(src.to_string());
    let d = (ds.to_string(), de.to_string());
    let fmt = if json {
        ListFormat::JSON
    } else {
        ListFormat::PrettyString
    };
    guarded(move || {
        match mode {
            ListMode::List => list(s, d, c, fmt),
            ListMode::ListAll => list_all(s, d, c, fmt),
        }
        .map_err(|e| e.to_string())
    })
}

/// A document-level case: source, delimiters, configuration. The common replay format.
#[derive(Debug, Clone)]
pub struct DocCase {
    pub src: String,
    pub ds: String,
    pub de: String,
    pub cfg: Cfg,
}

impl DocCase {
    pub fn to_json(&self) -> Value {
        json!({"src": self.src, "ds": self.ds, "de": self.de, "cfg": self.cfg.to_json()})
    }
    pub fn from_json(v: &Value) -> Option<DocCase> {
        Some(DocCase {
            src: v.get("src")?.as_str()?.to_string(),
            ds: v.get("ds")?.as_str()?.to_string(),
            de: v.get("de")?.as_str()?.to_string(),
            cfg: Cfg::from_json(v.get("cfg")?)?,
        })
    }
}

/// 64-bit FNV-1a with a final avalanche; used only to count distinct cases.
pub fn hash64(parts: &[&[u8]]) -> u64 {
    let mut h: u64 = 0xcbf29ce484222325;
    for p in parts {
        for &b in *p {
            h ^= b as u64;
            h = h.wrapping_mul(0x100000001b3);
        }
        h ^= 0xff;
        h = h.wrapping_mul(0x100000001b3);
    }
    h ^= h >> 33;
    h = h.wrapping_mul(0xff51afd7ed558ccd);
    h ^= h >> 33;
    h
}
