//! C11 (unwrap-block removes exactly four lines), C12 (uniform, safe dedent of the unwrapped
//! body), C13 (block-style removal keeps lines intact, no blank-line residue).
//! Each is a projection of the document grammar with its own parameter box, enumerated
//! completely by the choice-point explorer; expectations are computed on *lines* by
//! construction, independently of any parser.

use crate::explore::{count_choices, explore_choices, Chooser};
use crate::harness::{hash64, panic_site_key, run_clean, Cfg, TO_EXPIRED, TO_FUTURE};
use crate::report::{Local, Report, Tier, Violation};
use serde_json::{json, Value};

fn blankish(l: &str) -> bool {
    l.chars().all(|c| c == ' ' || c == '\t')
}
fn strip_lead(l: &str) -> &str {
    l.trim_start_matches([' ', '\t'])
}
fn clean_std(src: &str) -> Result<String, (String, String)> {
    run_clean(src, "<", ">", &Cfg::standard()).map_err(|p| {
        (
            format!("panic@{}", panic_site_key(&p.site)),
            format!("clean panicked: {}", p.site),
        )
    })
}
fn open_tl(to: &str, extra: &str) -> String {
    format!("<tl to=\"{to}\"{extra}>")
}

/// Known-finding class: the removed tag stands on the very first line of the file and is
/// indented; its indentation is left behind and glued to the first surviving line. Everything
/// else is as expected.
fn first_line_indent_residue(src: &str, got: &[&str], want: &[String]) -> bool {
    let first = src.split('\n').next().unwrap_or("");
    let ind = &first[..first.len() - strip_lead(first).len()];
    if ind.is_empty() || !strip_lead(first).starts_with("<tl to=\"2000") {
        return false;
    }
    got.len() == want.len()
        && !got.is_empty()
        && got[0] == format!("{ind}{}", want[0])
        && got[1..].iter().copied().eq(want[1..].iter().map(|s| s.as_str()))
}

// =============================================================================================
// C11

#[derive(Debug, Clone)]
pub struct Case11 {
    pub src: String,
    pub identity: bool,
    /// expected non-blank lines (leading whitespace stripped), in order
    pub lines: Vec<String>,
    pub nontrivial: bool,
    pub class: &'static str,
}

struct P11 {
    max_m: usize,
    kinds: usize, // 3 or 5 line kinds
}

fn gen11(ch: &mut Chooser, p: &P11) -> Case11 {
    let mut ctr = 0;
    let mut id = || {
        ctr += 1;
        format!("k{ctr}")
    };
    let mut lines: Vec<String> = vec![];
    let mut removed: Vec<bool> = vec![];
    let before = ch.choose(3);
    if before >= 1 {
        lines.push(format!("{}();", id()));
        removed.push(false);
    }
    if before == 2 {
        lines.push(String::new());
        removed.push(false);
    }
    let status = ch.choose(3); // 0 ready, 1 pending, 2 skip
    let tind = ["", "  "][ch.choose(2)];
    let attrs = match status {
        0 => (TO_EXPIRED, " unwrap-block"),
        1 => (TO_FUTURE, " unwrap-block"),
        _ => (TO_EXPIRED, " unwrap-block skip"),
    };
    // attribute order: the strategy flag after or before the condition
    let flag_first = ch.flag();
    let open_u = |to: &str, extra: &str| -> String {
        if flag_first {
            format!("<tl{extra} to=\"{to}\">")
        } else {
            open_tl(to, extra)
        }
    };
    let form = ch.choose(p.max_m + 2); // 0..=max_m: block with m lines; max_m+1: single line
    let mut m_total = 0;
    let mut blank_wrapper = false;
    let single = form == p.max_m + 1;
    let mut nested_ready = false;
    if single {
        lines.push(format!("{tind}{} {}(); </tl>", open_u(attrs.0, attrs.1), id()));
        removed.push(false);
    } else {
        let m = form;
        lines.push(format!("{tind}{}", open_u(attrs.0, attrs.1)));
        let open_idx = lines.len() - 1;
        removed.push(false);
        // nested range element among the inner lines (never touching the wrapper lines)
        let nested = if m >= 3 { ch.choose(3) } else { 0 }; // 0 none, 1 ready, 2 pending
        let nested_at = if nested > 0 { 1 + ch.choose(m - 2) } else { usize::MAX }; // before body line index
        // the nested element's tags indented relative to the block, or at the block's own column
        let nind = if nested > 0 && ch.flag() { "" } else { "  " };
        let mut body_idx: Vec<usize> = vec![];
        for i in 0..m {
            if i == nested_at {
                let to = if nested == 1 { TO_EXPIRED } else { TO_FUTURE };
                lines.push(format!("{tind}{nind}{}", open_tl(to, "")));
                removed.push(nested == 1);
                body_idx.push(lines.len() - 1);
                lines.push(format!("{tind}{nind}{}();", id()));
                removed.push(nested == 1);
                body_idx.push(lines.len() - 1);
                lines.push(format!("{tind}{nind}</tl>"));
                removed.push(nested == 1);
                body_idx.push(lines.len() - 1);
                nested_ready = nested == 1;
            }
            let k = ch.choose(p.kinds);
            let l = match k {
                0 => format!("{tind}{}();", id()),
                1 => format!("{tind}    {}();", id()),
                2 => String::new(),
                3 => format!("{tind}  "),
                4 => format!("{tind}{}(); // 開", id()),
                _ => format!("{tind}  {}開", crate::gen::fullwidth(&id())),
            };
            lines.push(l);
            removed.push(false);
            body_idx.push(lines.len() - 1);
        }
        m_total = body_idx.len();
        lines.push(format!("{tind}</tl>"));
        let close_idx = lines.len() - 1;
        removed.push(false);
        if status == 0 && m_total >= 2 {
            removed[open_idx] = true;
            removed[close_idx] = true;
            removed[body_idx[0]] = true;
            removed[*body_idx.last().unwrap()] = true;
            blank_wrapper = blankish(&lines[body_idx[0]]) || blankish(&lines[*body_idx.last().unwrap()]);
        }
    }
    let after = ch.choose(3);
    for _ in 0..after {
        lines.push(format!("{}();", id()));
        removed.push(false);
    }
    let final_nl = ch.flag();
    let mut src = lines.join("\n");
    if final_nl {
        src.push('\n');
    }
    let unwrapped = !single && status == 0 && m_total >= 2;
    // a pending/skip unwrap element keeps everything except a nested ready element
    let identity = !unwrapped && !nested_ready;
    if !unwrapped {
        // nested ready element inside a non-unwrapped element is still removed
    }
    let expect: Vec<String> = lines
        .iter()
        .zip(&removed)
        .filter(|(l, r)| !**r && !blankish(l))
        .map(|(l, _)| strip_lead(l).to_string())
        .collect();
    let class = if single {
        "single-line"
    } else if !unwrapped && status == 0 {
        "ready-too-short"
    } else if unwrapped {
        "unwrapped"
    } else {
        "pending-or-skip"
    };
    Case11 {
        src,
        identity,
        lines: expect,
        nontrivial: (1..=3).contains(&m_total) || blank_wrapper || single,
        class,
    }
}

fn check11(src: &str, identity: bool, want: &[String]) -> Option<(String, String)> {
    let out = match clean_std(src) {
        Ok(o) => o,
        Err(e) => return Some(e),
    };
    if identity {
        if out != src {
            return Some((
                "untouchable-unwrap-element-changed".into(),
                format!("expected output identical to input, got {out:?}"),
            ));
        }
        return None;
    }
    let got: Vec<&str> = out
        .split('\n')
        .filter(|l| !blankish(l))
        .map(strip_lead)
        .collect();
    if got.iter().copied().eq(want.iter().map(|s| s.as_str())) {
        return None;
    }
    let class = if got.len() > want.len() {
        "line-should-have-been-removed"
    } else if got.len() < want.len() {
        "inner-or-outer-line-lost"
    } else {
        "lines-differ"
    };
    Some((
        class.into(),
        format!("expected non-blank lines {want:?}, got {got:?} (output {out:?})"),
    ))
}

// =============================================================================================
// C12

#[derive(Debug, Clone)]
enum Inner {
    Line { w: String, text: String, id: String },
    Blank,
    /// whitespace-only line (indentation of the first inner line, nothing else)
    Ws { w: String },
    Range { w: String, ready: bool, id: String },
    Unwrap(Box<Blk>),
}
#[derive(Debug, Clone)]
struct Blk {
    t: String, // indentation of the tags and wrapper lines
    inner: Vec<Inner>,
    wid: (String, String),
}

struct P12 {
    units: Vec<&'static str>,
    /// bound on the number of further inner lines, indexed by nesting depth - 1
    max_further: Vec<usize>,
    max_depth: usize,
    max_extra_indent: usize,
    mb: bool,
}

fn gen_blk(ch: &mut Chooser, p: &P12, unit: &str, t_units: usize, depth: usize, ctr: &mut usize) -> Blk {
    let mut id = |ctr: &mut usize| {
        *ctr += 1;
        format!("L{}", *ctr)
    };
    // first inner line: F in max(T-1,0)..=T+2
    let f_lo = t_units.saturating_sub(1);
    let f_units = f_lo + ch.choose(t_units + 2 - f_lo + 1);
    let mut inner = vec![];
    // the first inner line is a code line, or (top-level blocks only) a whitespace-only / empty
    // line: its indentation still defines the shift
    if depth == 1 && ch.choose(3) == 2 {
        inner.push(Inner::Ws {
            w: unit.repeat(f_units),
        });
    } else {
        let i0 = id(ctr);
        inner.push(Inner::Line {
            w: unit.repeat(f_units),
            text: format!("{i0}();"),
            id: i0,
        });
    }
    let further = 1 + ch.choose(p.max_further[(depth - 1).min(p.max_further.len() - 1)]);
    let mut used_special = false;
    for _ in 0..further {
        // kinds: code at indent 0..=F+extra, mb code, blank, nested range (ready/pending), nested unwrap
        let n_ind = f_units + p.max_extra_indent + 1;
        let mut n_opts = n_ind + 1; // + blank
        if p.mb {
            n_opts += 1;
        }
        let ws_at = n_opts; // + whitespace-only line
        n_opts += 1;
        // + a line whose indentation behind the tag column is written with the *other* blank
        // character (tabs in a space-indented block and vice versa), one character deeper than
        // the first inner line: the shift counts characters, whatever they are
        let mixed_at = n_opts;
        n_opts += 1;
        let special_base = n_opts;
        if !used_special {
            n_opts += 2; // range ready / pending
            if depth < p.max_depth {
                n_opts += 1; // nested unwrap
            }
        }
        let c = ch.choose(n_opts);
        if c < n_ind {
            let i = id(ctr);
            inner.push(Inner::Line {
                w: unit.repeat(c),
                text: format!("{i}();"),
                id: i,
            });
        } else if c == n_ind {
            inner.push(Inner::Blank);
        } else if p.mb && c == n_ind + 1 {
            let i = id(ctr);
            inner.push(Inner::Line {
                w: unit.repeat(f_units),
                text: format!("🧹 {i}(); // 開"),
                id: i,
            });
        } else if c == ws_at {
            inner.push(Inner::Ws {
                w: unit.repeat(f_units),
            });
        } else if c == mixed_at {
            let i = id(ctr);
            let other = if unit.starts_with(' ') { "\t" } else { " " };
            let extra = unit.len() * f_units.saturating_sub(t_units) + 1;
            inner.push(Inner::Line {
                w: format!("{}{}", unit.repeat(t_units), other.repeat(extra)),
                text: format!("{i}();"),
                id: i,
            });
        } else if c == special_base || c == special_base + 1 {
            used_special = true;
            let i = id(ctr);
            inner.push(Inner::Range {
                w: unit.repeat(f_units),
                ready: c == special_base,
                id: i,
            });
        } else {
            used_special = true;
            // the nested block's tags stand at the first inner line's indentation, or (where that
            // differs) in the same column as the enclosing block's tags
            let ct = if f_units != t_units && ch.choose(2) == 1 { t_units } else { f_units };
            inner.push(Inner::Unwrap(Box::new(gen_blk(ch, p, unit, ct, depth + 1, ctr))));
        }
    }
    // a trailing code line so that the closing wrapper is never adjacent to a nested tag
    let il = id(ctr);
    inner.push(Inner::Line {
        w: unit.repeat(f_units),
        text: format!("{il}();"),
        id: il,
    });
    let w1 = id(ctr);
    let w2 = id(ctr);
    Blk {
        t: unit.repeat(t_units),
        inner,
        wid: (w1, w2),
    }
}

fn render_blk(b: &Blk, out: &mut Vec<String>) {
    // attribute order alternates with the block's identifiers (flag before / after the condition)
    if b.wid.1.len() % 2 == 0 {
        out.push(format!("{}<tl unwrap-block to=\"{TO_EXPIRED}\">", b.t));
    } else {
        out.push(format!("{}{}", b.t, open_tl(TO_EXPIRED, " unwrap-block")));
    }
    // every other wrapper line ends in a multi-byte character
    if b.wid.0.len() % 2 == 0 {
        out.push(format!("{}if ({}) {{ // 開", b.t, b.wid.0));
    } else {
        out.push(format!("{}if ({}) {{", b.t, b.wid.0));
    }
    for it in &b.inner {
        match it {
            Inner::Line { w, text, .. } => out.push(format!("{w}{text}")),
            Inner::Blank => out.push(String::new()),
            Inner::Ws { w } => out.push(w.clone()),
            Inner::Range { w, ready, id } => {
                out.push(format!("{w}{}", open_tl(if *ready { TO_EXPIRED } else { TO_FUTURE }, "")));
                out.push(format!("{w}{id}();"));
                out.push(format!("{w}</tl>"));
            }
            Inner::Unwrap(c) => render_blk(c, out),
        }
    }
    out.push(format!("{}}} // {}", b.t, b.wid.1));
    out.push(format!("{}</tl>", b.t));
}

/// a surviving line in flight: (indentation string, rest of line, id)
type SLine = (String, String, String);

/// the dedent rule of C12 for one block: T = tag indentation, F = first inner line's
fn shift(w: &str, t: usize, s: usize) -> String {
    let n = w.chars().count();
    if n <= t {
        return w.to_string();
    }
    let cs: Vec<char> = w.chars().collect();
    let cut = (t + s).min(n);
    cs[..t].iter().chain(cs[cut..].iter()).collect()
}

/// inside-out: children first, then this block's shift over everything that survives in it
fn surv_inside_out(b: &Blk) -> Vec<SLine> {
    let mut v: Vec<SLine> = vec![];
    for it in &b.inner {
        match it {
            Inner::Line { w, text, id } => v.push((w.clone(), text.clone(), id.clone())),
            Inner::Blank | Inner::Ws { .. } => {}
            Inner::Range { w, ready, id } => {
                if !*ready {
                    v.push((w.clone(), open_tl(TO_FUTURE, ""), format!("{id}-open")));
                    v.push((w.clone(), format!("{id}();"), id.clone()));
                    v.push((w.clone(), "</tl>".into(), format!("{id}-close")));
                }
            }
            Inner::Unwrap(c) => v.extend(surv_inside_out(c)),
        }
    }
    let t = b.t.chars().count();
    let f = match &b.inner[0] {
        Inner::Line { w, .. } | Inner::Ws { w } => w.chars().count(),
        _ => unreachable!(),
    };
    let s = f.saturating_sub(t);
    v.into_iter().map(|(w, x, i)| (shift(&w, t, s), x, i)).collect()
}

/// outside-in: this block's shift is applied to everything inside first (tags of children
/// included, so their T moves), then children are processed on the shifted text
fn surv_outside_in(b: &Blk, pre: &[(usize, usize)]) -> Vec<SLine> {
    // `pre` = shifts (t, s) of the enclosing blocks, outermost first, to apply to every line
    let apply = |w: &str, shifts: &[(usize, usize)]| -> String {
        let mut w = w.to_string();
        for &(t, s) in shifts {
            w = shift(&w, t, s);
        }
        w
    };
    let t_now = apply(&b.t, pre).chars().count();
    let f_now = match &b.inner[0] {
        Inner::Line { w, .. } | Inner::Ws { w } => apply(w, pre).chars().count(),
        _ => unreachable!(),
    };
    let mut shifts = pre.to_vec();
    shifts.push((t_now, f_now.saturating_sub(t_now)));
    let mut v = vec![];
    for it in &b.inner {
        match it {
            Inner::Line { w, text, id } => v.push((apply(w, &shifts), text.clone(), id.clone())),
            Inner::Blank | Inner::Ws { .. } => {}
            Inner::Range { w, ready, id } => {
                if !*ready {
                    v.push((apply(w, &shifts), open_tl(TO_FUTURE, ""), format!("{id}-open")));
                    v.push((apply(w, &shifts), format!("{id}();"), id.clone()));
                    v.push((apply(w, &shifts), "</tl>".into(), format!("{id}-close")));
                }
            }
            Inner::Unwrap(c) => v.extend(surv_outside_in(c, &shifts)),
        }
    }
    v
}

#[derive(Debug, Clone)]
pub struct Case12 {
    pub src: String,
    /// expected surviving inner lines, in order (full line text)
    pub inner: Vec<String>,
    pub asserted: bool,
    pub nontrivial: bool,
    pub class: &'static str,
}

fn depth_of(b: &Blk) -> usize {
    1 + b
        .inner
        .iter()
        .map(|i| match i {
            Inner::Unwrap(c) => depth_of(c),
            _ => 0,
        })
        .max()
        .unwrap_or(0)
}

fn gen12(ch: &mut Chooser, p: &P12) -> Case12 {
    let unit = p.units[ch.choose(p.units.len())];
    let t_units = ch.choose(3);
    // 0..2 code lines before the block, (3) an earlier removal: code, a ready block, code, or
    // (4) a ready block directly above the unwrap-block (no line between), (5) a line with two
    // ready inline elements that touch each other (zero bytes between them)
    let before = ch.choose(6);
    let mut ctr = 0usize;
    let blk = gen_blk(ch, p, unit, t_units, 1, &mut ctr);
    let mut lines: Vec<String> = vec![];
    if before == 5 {
        lines.push(format!(
            "P0(); {}x{}{}y{} P1();",
            open_tl(TO_EXPIRED, ""),
            "</tl>",
            open_tl(TO_EXPIRED, ""),
            "</tl>"
        ));
    } else if before == 3 || before == 4 {
        lines.push("P0();".into());
        lines.push(open_tl(TO_EXPIRED, ""));
        lines.push("  earlier();".into());
        lines.push("</tl>".into());
        if before == 3 {
            lines.push("P1();".into());
        }
    } else {
        for i in 0..before {
            lines.push(format!("P{i}();"));
        }
    }
    render_blk(&blk, &mut lines);
    // a line behind the block, or the closing tag is the last thing in the file (no line break)
    let src = if ch.choose(3) == 2 {
        lines.join("\n")
    } else {
        lines.push("S();".into());
        lines.join("\n") + "\n"
    };
    let a = surv_inside_out(&blk);
    let b = surv_outside_in(&blk, &[]);
    let asserted = a == b;
    let inner: Vec<String> = a.iter().map(|(w, x, _)| format!("{w}{x}")).collect();
    let t = blk.t.chars().count();
    let f = match &blk.inner[0] {
        Inner::Line { w, .. } | Inner::Ws { w } => w.chars().count(),
        _ => 0,
    };
    let depth = depth_of(&blk);
    let low = blk.inner.iter().any(|i| match i {
        Inner::Line { w, .. } => w.chars().count() < f || w.chars().count() < t,
        _ => false,
    });
    Case12 {
        src,
        inner,
        asserted,
        nontrivial: (f > t && low) || depth >= 2 || before == 0,
        class: if !asserted {
            "composition-ambiguous(not asserted)"
        } else if depth >= 2 {
            "nested-unwrap"
        } else if before == 0 {
            "block-on-line-1"
        } else {
            "single-block"
        },
    }
}

fn check12(src: &str, inner: &[String]) -> Option<(String, String)> {
    let out = match clean_std(src) {
        Ok(o) => o,
        Err(e) => return Some(e),
    };
    // surviving inner lines = non-blank output lines between the lines before and after the block
    let lines: Vec<&str> = out.split('\n').collect();
    let start = lines
        .iter()
        .rposition(|l| l.starts_with('P'))
        .map(|p| p + 1)
        .unwrap_or(0);
    let end = lines
        .iter()
        .position(|l| *l == "S();")
        .unwrap_or(lines.len());
    let got: Vec<&str> = lines[start.min(end)..end]
        .iter()
        .copied()
        .filter(|l| !blankish(l))
        .collect();
    if got.iter().copied().eq(inner.iter().map(|s| s.as_str())) {
        return None;
    }
    // classify
    let class = if first_line_indent_residue(src, &got, inner) {
        "first-line-indent-residue"
    } else if got.len() != inner.len() {
        "body-line-count-differs"
    } else {
        let mut c = "body-text-changed";
        for (g, w) in got.iter().zip(inner) {
            if g != w && strip_lead(g) == strip_lead(w) {
                let gi = g.len() - strip_lead(g).len();
                let wi = w.len() - strip_lead(w).len();
                c = if gi > wi {
                    "under-dedented"
                } else {
                    "over-dedented"
                };
                break;
            }
        }
        c
    };
    Some((
        class.into(),
        format!("expected body lines {inner:?}, got {got:?} (output {out:?})"),
    ))
}

// =============================================================================================
// C13

#[derive(Debug, Clone)]
pub struct Case13 {
    pub src: String,
    pub nonblank: Vec<String>,
    /// (line before, line after, expected number of blank-ish lines between them)
    pub blanks: Vec<(String, String, usize)>,
    pub nontrivial: bool,
    pub class: &'static str,
}

struct P13 {
    /// bound on a and b per block, indexed by (number of blocks - 1)
    max_ab_by_blocks: Vec<usize>,
    max_ab: usize,
    blank_kinds: usize,
    max_blocks: usize,
    indents: Vec<&'static str>,
}

fn gen13(ch: &mut Chooser, p: &P13) -> Case13 {
    const BLANKS: [&str; 3] = ["", "  ", "\t"];
    let mut ctr = 0;
    let mut id = |mb: bool| {
        ctr += 1;
        if mb {
            // no ASCII byte at all: a line of multi-byte characters only
            crate::gen::fullwidth(&format!("k{ctr}"))
        } else {
            format!("k{ctr}();")
        }
    };
    let mut lines: Vec<String> = vec![];
    let mut keep: Vec<bool> = vec![];
    let cind = p.indents[ch.choose(p.indents.len())];
    let mb = ch.flag();
    let pre = ch.choose(3);
    for _ in 0..pre {
        lines.push(format!("{cind}{}", id(mb)));
        keep.push(true);
    }
    let pend = ch.flag();
    if pend {
        lines.push(format!("{cind}{}", open_tl(TO_FUTURE, "")));
        keep.push(true);
    }
    let nblocks = 1 + ch.choose(p.max_blocks);
    let max_ab = p.max_ab_by_blocks[nblocks - 1].min(p.max_ab);
    // (index of first line of the blank run before, b, a, separated_before, separated_after)
    let mut blocks: Vec<(usize, usize, usize, usize)> = vec![]; // (b, a, first_line_idx, last_line_idx)
    let mut seps: Vec<bool> = vec![];
    for bi in 0..nblocks {
        let b = ch.choose(max_ab + 1);
        for _ in 0..b {
            lines.push(BLANKS[ch.choose(p.blank_kinds)].to_string());
            keep.push(true);
        }
        let tind = p.indents[ch.choose(p.indents.len())];
        let first = lines.len();
        lines.push(format!("{tind}{}", open_tl(TO_EXPIRED, "")));
        keep.push(false);
        let ncontent = 1 + ch.choose(2);
        for _ in 0..ncontent {
            lines.push(format!("{tind}  {}", id(false)));
            keep.push(false);
        }
        lines.push(format!("{tind}</tl>"));
        keep.push(false);
        let last = lines.len() - 1;
        let a = ch.choose(max_ab + 1);
        for _ in 0..a {
            lines.push(BLANKS[ch.choose(p.blank_kinds)].to_string());
            keep.push(true);
        }
        blocks.push((b, a, first, last));
        if bi + 1 < nblocks {
            let sep = ch.flag();
            seps.push(sep);
            if sep {
                lines.push(format!("{cind}{}", id(mb)));
                keep.push(true);
            }
        }
    }
    if pend {
        lines.push(format!("{cind}</tl>"));
        keep.push(true);
    }
    let suf = ch.choose(3);
    for _ in 0..suf {
        lines.push(format!("{cind}{}", id(false)));
        keep.push(true);
    }
    let final_nl = ch.flag();
    let mut src = lines.join("\n");
    if final_nl {
        src.push('\n');
    }
    let nonblank: Vec<String> = lines
        .iter()
        .zip(&keep)
        .filter(|(l, k)| **k && !blankish(l))
        .map(|(l, _)| l.clone())
        .collect();
    // blank-count expectations
    let mut blanks = vec![];
    for (bi, &(b, a, first, last)) in blocks.iter().enumerate() {
        let sep_before = bi == 0 || seps[bi - 1];
        let sep_after = bi + 1 == nblocks || seps[bi];
        if !(sep_before && sep_after) {
            continue;
        }
        // nearest surviving non-blank neighbours
        let before = (0..first - b).rev().find(|&i| keep[i] && !blankish(&lines[i]));
        let after = (last + 1 + a..lines.len()).find(|&i| keep[i] && !blankish(&lines[i]));
        // the neighbours must be *directly* adjacent to the blank runs (they are by construction)
        if let (Some(p0), Some(p1)) = (before, after) {
            if p0 + 1 == first - b && p1 == last + 1 + a {
                blanks.push((
                    lines[p0].clone(),
                    lines[p1].clone(),
                    a + b - if a > 0 && b > 0 { 1 } else { 0 },
                ));
            }
        }
    }
    let ab: usize = blocks.iter().map(|x| x.0 + x.1).sum();
    let first_or_last = (pre == 0 && !pend) || (suf == 0 && !pend);
    let indented = lines.iter().zip(&keep).any(|(l, k)| !*k && l.starts_with([' ', '\t']));
    Case13 {
        src,
        nonblank,
        blanks,
        nontrivial: ab > 0 || indented || first_or_last,
        class: if nblocks > 1 {
            "multi-block"
        } else if pend {
            "in-pending-parent"
        } else if first_or_last {
            "block-at-file-edge"
        } else {
            "block-between-lines"
        },
    }
}

fn check13(src: &str, nonblank: &[String], blanks: &[(String, String, usize)]) -> Option<(String, String)> {
    let out = match clean_std(src) {
        Ok(o) => o,
        Err(e) => return Some(e),
    };
    let out_lines: Vec<&str> = out.split('\n').collect();
    let got: Vec<&str> = out_lines.iter().copied().filter(|l| !blankish(l)).collect();
    if !got.iter().copied().eq(nonblank.iter().map(|s| s.as_str())) {
        // classify: indentation residue glued to a line?
        let class = if first_line_indent_residue(src, &got, nonblank) {
            "first-line-indent-residue"
        } else if got.len() == nonblank.len()
            && got.iter().zip(nonblank).all(|(g, w)| strip_lead(g) == strip_lead(w))
        {
            "indentation-changed"
        } else if got.len() < nonblank.len() {
            "line-lost-or-joined"
        } else {
            "extra-nonblank-line"
        };
        return Some((
            class.into(),
            format!("expected non-blank lines {nonblank:?}, got {got:?} (output {out:?})"),
        ));
    }
    for (before, after, want) in blanks {
        // lines are unique by construction
        let Some(p0) = out_lines.iter().position(|l| l == before) else { continue };
        let Some(p1) = out_lines.iter().position(|l| l == after) else { continue };
        if p1 <= p0 {
            continue;
        }
        let cnt = p1 - p0 - 1;
        if cnt != *want {
            let class = if cnt > *want { "blank-line-residue" } else { "blank-line-over-removed" };
            return Some((
                class.into(),
                format!("between {before:?} and {after:?}: expected {want} blank lines, got {cnt} (output {out:?})"),
            ));
        }
    }
    None
}

// =============================================================================================

pub fn run(r: &Report, prop: &str) {
    match prop {
        "C11" => {
            r.set_rule("all documents: {0,1,2 lines before (code / code+blank)} x {ready, pending, skip} unwrap element x tag indent {0,1} x {m = 0..M lines between the tags, each from the line-kind alphabet (code, indented code, blank, whitespace-only, multi-byte); single-line form} x optional nested ready/pending default-strategy element at every inner position x 0..2 lines after x final newline; oracle on non-blank lines (leading whitespace stripped) by construction, or byte identity when the element must stay untouched; non-trivial = distinct documents with m in 1..3, a blank wrapper line, or the single-line form");
            let p = match r.tier {
                Tier::Quick => P11 { max_m: 4, kinds: 6 },
                Tier::Thorough => P11 { max_m: 6, kinds: 6 },
            };
            let single = count_choices(|ch| gen11(ch, &p));
            let counted = explore_choices(
                |ch: &mut Chooser| gen11(ch, &p),
                4,
                || r.local(),
                |l: &mut Local, c: Case11, tr| {
                    l.eval();
                    l.transition(tr.len() as u64);
                    let h = hash64(&[c.src.as_bytes()]);
                    l.state(h);
                    if c.nontrivial {
                        l.nontrivial(h);
                    }
                    l.trace_validated(1);
                    l.class(c.class);
                    if let Some((class, detail)) = check11(&c.src, c.identity, &c.lines) {
                        l.violation(Violation {
                            prop: "C11".into(),
                            class,
                            case: json!({"engine": "layout11", "src": c.src, "identity": c.identity, "lines": c.lines}),
                            detail,
                        });
                    } else if l.r.samples_len() < 6 && c.nontrivial && c.class == "unwrapped" && c.src.len() > 90 {
                        l.r.sample(json!({"src": c.src, "expected_nonblank_lines": c.lines}));
                    }
                },
                &|| r.stopped(),
            );
            r.expect_count("C11 layouts (parallel split vs single-threaded count)", single, counted);
        }
        "C12" => {
            r.set_rule("all unwrap layouts: indentation unit {2 spaces, 4 spaces, tab} x tag indent T 0..2 units x first inner line indent F in max(T-1,0)..T+2 x 1..K further inner lines each {code at indent 0..F+E units, multi-byte code, blank, nested ready/pending default-strategy element, nested unwrap-block (to depth D)} x {0..2 lines, an earlier removal, or a removed block directly above} before the block, both attribute orders, whitespace-only body lines; expectation per surviving inner line from the dedent rule (shift = max(F-T,0), never left of column T, whitespace only), nested blocks by sequential composition, asserted where inside-out and outside-in composition agree; non-trivial = distinct layouts with a positive shift and a line indented less than F or T, or depth >= 2, or block on line 1");
            let p = match r.tier {
                Tier::Quick => P12 { units: vec!["  ", "\t"], max_further: vec![2, 2], max_depth: 2, max_extra_indent: 1, mb: true },
                Tier::Thorough => P12 { units: vec!["  ", "    ", "\t"], max_further: vec![3, 1, 1], max_depth: 3, max_extra_indent: 2, mb: true },
            };
            let ambiguous = std::sync::atomic::AtomicU64::new(0);
            let counted = explore_choices(
                |ch: &mut Chooser| gen12(ch, &p),
                4,
                || r.local(),
                |l: &mut Local, c: Case12, tr| {
                    l.eval();
                    l.transition(tr.len() as u64);
                    let h = hash64(&[c.src.as_bytes()]);
                    l.state(h);
                    l.class(c.class);
                    if !c.asserted {
                        ambiguous.fetch_add(1, std::sync::atomic::Ordering::Relaxed);
                        return;
                    }
                    if c.nontrivial {
                        l.nontrivial(h);
                    }
                    l.trace_validated(1);
                    if let Some((class, detail)) = check12(&c.src, &c.inner) {
                        l.violation(Violation {
                            prop: "C12".into(),
                            class,
                            case: json!({"engine": "layout12", "src": c.src, "inner": c.inner}),
                            detail,
                        });
                    } else if l.r.samples_len() < 6 && c.nontrivial && c.class == "nested-unwrap" {
                        l.r.sample(json!({"src": c.src, "expected_body_lines": c.inner}));
                    }
                },
                &|| r.stopped(),
            );
            r.extra("layouts", json!(counted));
            r.extra("layouts_not_asserted_because_composition_order_matters", json!(ambiguous.load(std::sync::atomic::Ordering::Relaxed)));
        }
        _ => {
            r.set_rule("all block layouts: code indent x multi-byte x 0..2 lines before x optional pending parent x 1..B ready default-strategy blocks (tags alone on lines, tag indent from {none, 2 spaces, tab, 4 spaces, space+tab, tab+space}, 1..2 content lines), each with b blank-ish lines before and a after (a,b in 0..M with M = 3 (quick) / 4 (thorough) for a single block, smaller for 2 and 3 blocks; each blank-ish line from {empty, spaces, tab}), blocks separated by 0/1 code line x 0..2 lines after x final newline; oracle (1) non-blank output lines == surviving non-blank input lines byte for byte, (2) a+b-[a>0 and b>0] blank lines remain between the neighbours of every isolated block; non-trivial = distinct layouts with a+b>0, indented tags, or the block first/last in the file");
            let p = match r.tier {
                Tier::Quick => P13 { max_ab_by_blocks: vec![3, 1], max_ab: 3, blank_kinds: 3, max_blocks: 2, indents: vec!["", "  ", "\t", " \t"] },
                Tier::Thorough => P13 { max_ab_by_blocks: vec![4, 1, 0], max_ab: 4, blank_kinds: 3, max_blocks: 3, indents: vec!["", "  ", "\t", " \t"] },
            };
            let counted = explore_choices(
                |ch: &mut Chooser| gen13(ch, &p),
                5,
                || r.local(),
                |l: &mut Local, c: Case13, tr| {
                    l.eval();
                    l.transition(tr.len() as u64);
                    let h = hash64(&[c.src.as_bytes()]);
                    l.state(h);
                    if c.nontrivial {
                        l.nontrivial(h);
                    }
                    l.trace_validated(1);
                    l.class(c.class);
                    if let Some((class, detail)) = check13(&c.src, &c.nonblank, &c.blanks) {
                        l.violation(Violation {
                            prop: "C13".into(),
                            class,
                            case: json!({"engine": "layout13", "src": c.src, "nonblank": c.nonblank,
                                "blanks": c.blanks.iter().map(|b| json!([b.0, b.1, b.2])).collect::<Vec<_>>()}),
                            detail,
                        });
                    } else if l.r.samples_len() < 6 && c.nontrivial && !c.blanks.is_empty() && c.class == "multi-block" {
                        l.r.sample(json!({"src": c.src, "expected_nonblank_lines": c.nonblank,
                            "blank_line_expectations": c.blanks.iter().map(|b| json!([b.0, b.1, b.2])).collect::<Vec<_>>()}));
                    }
                },
                &|| r.stopped(),
            );
            r.extra("layouts", json!(counted));
        }
    }
}

pub fn replay(case: &Value) -> Vec<Violation> {
    let strs = |v: &Value| -> Vec<String> {
        v.as_array()
            .map(|a| a.iter().filter_map(|x| x.as_str().map(|s| s.to_string())).collect())
            .unwrap_or_default()
    };
    let Some(src) = case["src"].as_str() else { return vec![] };
    let (prop, res) = match case["engine"].as_str().unwrap_or("") {
        "layout11" => (
            "C11",
            check11(src, case["identity"].as_bool().unwrap_or(false), &strs(&case["lines"])),
        ),
        "layout12" => ("C12", check12(src, &strs(&case["inner"]))),
        "layout13" => {
            let blanks: Vec<(String, String, usize)> = case["blanks"]
                .as_array()
                .map(|a| {
                    a.iter()
                        .map(|b| {
                            (
                                b[0].as_str().unwrap_or("").to_string(),
                                b[1].as_str().unwrap_or("").to_string(),
                                b[2].as_u64().unwrap_or(0) as usize,
                            )
                        })
                        .collect()
                })
                .unwrap_or_default();
            ("C13", check13(src, &strs(&case["nonblank"]), &blanks))
        }
        _ => return vec![],
    };
    res.map(|(class, detail)| Violation {
        prop: prop.into(),
        class,
        case: case.clone(),
        detail,
    })
    .into_iter()
    .collect()
}
