//! C18: behaviour is independent of the spelling of delimiters and tag names.
//! Every G-ast document is rendered under every spelling sigma of (delimiter pool x tag-name
//! pool); clean(render(d, sigma0)) with every surviving tag re-spelled must equal
//! clean(render(d, sigma)), and list / list_all line ranges and statuses must be equal.

use crate::explore::{count_choices, explore_choices, Chooser};
use crate::gen::{self, AstParams, Delims, Item, Kind, Names, RenderOpts};
use crate::harness::{hash64, panic_site_key, run_clean, run_list, Cfg, ListMode};
use crate::props::listing::parse_json;
use crate::refmodel::ref_tokenize;
use crate::report::{Local, Report, Tier, Violation};
use serde_json::{json, Value};

pub const NAME_POOL: &[(&str, &str)] = &[
    ("tl", "rm"),
    ("time-limited", "removal-marker"),
    ("期限", "印"),
    ("t.l", "r+m"),
    // one name a proper prefix of the other
    ("tl", "t"),
];

#[derive(Debug, Clone, PartialEq)]
pub struct Spelling {
    pub ds: String,
    pub de: String,
    pub tl: String,
    pub rm: String,
}
impl Spelling {
    fn to_json(&self) -> Value {
        json!([self.ds, self.de, self.tl, self.rm])
    }
    fn from_json(v: &Value) -> Option<Spelling> {
        let a = v.as_array()?;
        Some(Spelling {
            ds: a[0].as_str()?.into(),
            de: a[1].as_str()?.into(),
            tl: a[2].as_str()?.into(),
            rm: a[3].as_str()?.into(),
        })
    }
    fn cfg(&self) -> Cfg {
        Cfg::with_names(&self.tl, &self.rm)
    }
}

/// re-spell every tag token of `text` (written under `a`) into spelling `b`
pub fn respell(text: &str, a: &Spelling, b: &Spelling) -> String {
    let mut out = String::new();
    for t in ref_tokenize(text, &a.ds, &a.de) {
        let s = &text[t.s..t.e];
        if !t.tag {
            out.push_str(s);
            continue;
        }
        let body = &s[a.ds.len()..s.len() - a.de.len()];
        let (word, rest) = match body.find(' ') {
            Some(p) => (&body[..p], &body[p..]),
            None => (body, ""),
        };
        let (slash, name) = match word.strip_prefix('/') {
            Some(n) => ("/", n),
            None => ("", word),
        };
        let name = if name == a.tl {
            b.tl.as_str()
        } else if name == a.rm {
            b.rm.as_str()
        } else {
            name
        };
        out.push_str(&b.ds);
        out.push_str(slash);
        out.push_str(name);
        out.push_str(rest);
        out.push_str(&b.de);
    }
    out
}

fn ranges(src: &str, sp: &Spelling, mode: ListMode) -> Result<Vec<(usize, usize, bool)>, (String, String)> {
    match run_list(src, &sp.ds, &sp.de, &sp.cfg(), mode, true) {
        Err(p) => Err((
            format!("panic@{}", panic_site_key(&p.site)),
            format!("list panicked under {:?}: {}", sp, p.site),
        )),
        Ok(Err(e)) => Err(("list-error".into(), e)),
        Ok(Ok(s)) => parse_json(&s)
            .map(|v| v.iter().map(|i| (i.first, i.last, i.ready)).collect())
            .map_err(|e| ("json-shape".to_string(), e)),
    }
}

/// compare one spelling against the baseline
pub fn check(src0: &str, s0: &Spelling, src: &str, s: &Spelling) -> Option<(String, String)> {
    let o0 = match run_clean(src0, &s0.ds, &s0.de, &s0.cfg()) {
        Ok(o) => o,
        Err(p) => {
            return Some((
                format!("panic@{}", panic_site_key(&p.site)),
                format!("clean panicked under the baseline spelling: {}", p.site),
            ))
        }
    };
    let o = match run_clean(src, &s.ds, &s.de, &s.cfg()) {
        Ok(o) => o,
        Err(p) => {
            return Some((
                format!("panic@{}", panic_site_key(&p.site)),
                format!("clean panicked under {:?}: {}", s, p.site),
            ))
        }
    };
    let mapped = respell(&o0, s0, s);
    if mapped != o {
        let class = if o == src && o0 != src0 {
            "nothing-removed-under-spelling"
        } else if crate::align::nonws(mapped.as_bytes()) == crate::align::nonws(o.as_bytes()) {
            "whitespace-differs-under-spelling"
        } else {
            "output-differs-under-spelling"
        };
        return Some((
            class.into(),
            format!("spelling {:?}: expected {mapped:?}, got {o:?}", s),
        ));
    }
    for mode in [ListMode::List, ListMode::ListAll] {
        let r0 = match ranges(src0, s0, mode) {
            Ok(r) => r,
            Err(e) => return Some(e),
        };
        let r1 = match ranges(src, s, mode) {
            Ok(r) => r,
            Err(e) => return Some(e),
        };
        if r0 != r1 {
            return Some((
                "list-ranges-differ-under-spelling".into(),
                format!("spelling {:?} mode {:?}: baseline {r0:?}, got {r1:?}", s, mode),
            ));
        }
    }
    None
}

fn spellings(tier: Tier) -> Vec<Spelling> {
    let (dn, nn) = match tier {
        Tier::Quick => (vec![0usize, 1, 3, 5, 6, 8, 9, 11, 13, 14], 2),
        Tier::Thorough => ((0..gen::POOL.len()).collect(), NAME_POOL.len()),
    };
    let mut v = vec![];
    for &di in &dn {
        for (tl, rm) in NAME_POOL.iter().take(nn) {
            let d = &gen::POOL[di];
            v.push(Spelling {
                ds: d.ds.into(),
                de: d.de.into(),
                tl: tl.to_string(),
                rm: rm.to_string(),
            });
        }
    }
    if tier == Tier::Quick {
        // make sure every name pair occurs at least once in the quick tier
        for (tl, rm) in NAME_POOL.iter().skip(nn) {
            v.push(Spelling {
                ds: "<!-- <".into(),
                de: "> -->".into(),
                tl: tl.to_string(),
                rm: rm.to_string(),
            });
        }
    }
    v
}

fn render_under(items: &[Item], sp: &Spelling) -> String {
    // leak-free static borrow workaround: Delims holds &'static str, so build via a local match
    let d = gen::POOL
        .iter()
        .find(|d| d.ds == sp.ds && d.de == sp.de)
        .cloned()
        .unwrap_or(Delims { ds: "<", de: ">" });
    let names = Names {
        tl: sp.tl.clone(),
        rm: sp.rm.clone(),
    };
    gen::render(
        items,
        &RenderOpts {
            d: &d,
            names: &names,
            unit: "  ",
            tag_ids: true,
            final_newline: true,
            plain: true,
        },
    )
    .src
}

pub fn run(r: &Report) {
    r.set_rule("every G-ast tree up to the line budget (text made of letters, digits, spaces only; every tag carries a unique c=\"kN\") rendered under every spelling = (delimiter pair from the pool without leading/trailing-space spellings) x (tag-name pair from {tl/rm, time-limited/removal-marker, 期限/印, t.l/r+m}); relational oracle against the baseline spelling (<,>,tl,rm): re-spelled clean output equal, list and list_all (line range, status) sequences equal; transitivity makes this decide all ordered pairs; non-trivial = distinct (document, spelling) pairs in which something is removed");
    let p = match r.tier {
        Tier::Quick => AstParams {
            max_lines: 5,
            max_depth: 2,
            block_kinds: vec![Kind::Expired, Kind::Future, Kind::Targeted],
            inline_kinds: vec![Kind::Expired],
            unwrap: true,
            ws_lines: false,
            mb: false,
            extra_indent: false,
            blank: true,
            rich: false,
            short_unwrap: false,
            shared_lines: false,
            shared_pairs: vec![],
        },
        Tier::Thorough => AstParams {
            max_lines: 6,
            max_depth: 3,
            block_kinds: vec![Kind::Expired, Kind::Future, Kind::Targeted, Kind::SkipExpired],
            inline_kinds: vec![Kind::Expired, Kind::Targeted],
            unwrap: true,
            ws_lines: false,
            mb: false,
            extra_indent: true,
            blank: true,
            rich: false,
            short_unwrap: false,
            shared_lines: false,
            shared_pairs: vec![],
        },
    };
    let sps = spellings(r.tier);
    let base = sps[0].clone();
    r.extra("spellings", json!(sps.len()));
    let single = count_choices(|ch| {
        gen::gen_doc(ch, &p);
    });
    let counted = explore_choices(
        |ch: &mut Chooser| gen::gen_doc(ch, &p),
        3,
        || r.local(),
        |l: &mut Local, items: Vec<Item>, trace| {
            l.transition(trace.len() as u64);
            let src0 = render_under(&items, &base);
            let removes = run_clean(&src0, &base.ds, &base.de, &base.cfg())
                .map(|o| o != src0)
                .unwrap_or(true);
            for sp in sps.iter().skip(1) {
                let src = render_under(&items, sp);
                l.eval();
                let h = hash64(&[src.as_bytes(), sp.ds.as_bytes(), sp.tl.as_bytes()]);
                l.state(h);
                if removes {
                    l.nontrivial(h);
                }
                l.trace_validated(1);
                l.class(if removes { "removal" } else { "identity" });
                if let Some((class, detail)) = check(&src0, &base, &src, sp) {
                    l.violation(Violation {
                        prop: "C18".into(),
                        class,
                        case: json!({"engine": "rename", "src0": src0, "s0": base.to_json(), "src": src, "s": sp.to_json()}),
                        detail,
                    });
                } else if removes && l.r.samples_len() < 5 && items.len() >= 2 && sp.tl == "期限" {
                    l.r.sample(json!({"baseline": src0, "spelling": sp.to_json(), "respelled_source": src}));
                }
            }
        },
        &|| r.stopped(),
    );
    r.expect_count("G-ast trees (parallel split vs single-threaded count)", single, counted);
}

pub fn replay(case: &Value) -> Vec<Violation> {
    let (Some(src0), Some(s0), Some(src), Some(s)) = (
        case["src0"].as_str(),
        Spelling::from_json(&case["s0"]),
        case["src"].as_str(),
        Spelling::from_json(&case["s"]),
    ) else {
        return vec![];
    };
    check(src0, &s0, src, &s)
        .map(|(class, detail)| Violation {
            prop: "C18".into(),
            class,
            case: case.clone(),
            detail,
        })
        .into_iter()
        .collect()
}
