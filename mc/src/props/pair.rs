//! C10: tags pair by name with stack discipline; stray tags are inert text.
//! Every sequence <= N over {open a, open b, close a, close b, close z, text}, rendered under two
//! delimiter spellings, through the real tokenizer + parser, against the explicit-stack model.

use crate::explore::{explore_seqs, seq_count};
use crate::gen::{self, Delims};
use crate::harness::{guarded, hash64, panic_site_key};
use crate::refmodel::{ref_pair, ref_tag, ref_tokenize, RTag};
use crate::report::{Local, Report, Tier, Violation};
use chiritori::parser::{self, ContentPart};
use chiritori::tokenizer::tokenize;
use serde_json::{json, Value};

#[derive(Debug, Clone, PartialEq)]
pub struct Flat {
    /// (open token byte_start, close token byte_start, parent's open byte_start)
    pub els: Vec<(usize, usize, Option<usize>)>,
    /// in-order flattening: token byte_starts, with a marker whether it is an element endpoint
    pub order: Vec<(usize, bool)>,
    /// all token byte_starts in document order
    pub tokens: Vec<usize>,
}

fn walk(parts: &[ContentPart], parent: Option<usize>, f: &mut Flat) {
    for p in parts {
        match p {
            ContentPart::Text(t) => f.order.push((t.token.byte_start, false)),
            ContentPart::Element(e) => {
                f.els
                    .push((e.start_token.byte_start, e.end_token.byte_start, parent));
                f.order.push((e.start_token.byte_start, true));
                walk(&e.children, Some(e.start_token.byte_start), f);
                f.order.push((e.end_token.byte_start, true));
            }
        }
    }
}

pub fn run_parse(src: &str, ds: &str, de: &str) -> Result<Flat, crate::harness::PanicInfo> {
    guarded(|| {
        let toks = tokenize(src, ds, de);
        let parsed = parser::parse(&toks);
        let mut f = Flat {
            els: vec![],
            order: vec![],
            tokens: toks.iter().map(|t| t.byte_start).collect(),
        };
        walk(&parsed, None, &mut f);
        f
    })
}

pub fn reference(src: &str, ds: &str, de: &str) -> (Vec<(usize, usize, Option<usize>)>, Vec<usize>) {
    let toks = ref_tokenize(src, ds, de);
    let tags: Vec<Option<RTag>> = toks
        .iter()
        .map(|t| {
            if t.tag {
                ref_tag(&src[t.s + ds.len()..t.e - de.len()])
            } else {
                None
            }
        })
        .collect();
    let els = ref_pair(&toks, &tags);
    let mut v: Vec<(usize, usize, Option<usize>)> = els
        .iter()
        .map(|e| {
            (
                toks[e.open].s,
                toks[e.close].s,
                e.parent.map(|p| toks[els[p].open].s),
            )
        })
        .collect();
    v.sort();
    (v, toks.iter().map(|t| t.s).collect())
}

pub fn check(src: &str, ds: &str, de: &str) -> Result<Option<(String, String)>, String> {
    let f = match run_parse(src, ds, de) {
        Ok(f) => f,
        Err(p) => {
            return Ok(Some((
                format!("panic@{}", panic_site_key(&p.site)),
                format!("parse panicked: {}", p.site),
            )))
        }
    };
    let (want, ref_tokens) = reference(src, ds, de);
    if ref_tokens != f.tokens {
        // tokenization differs: C08's business; C10 cannot be evaluated on this input
        return Err("tokenization differs from the reference (see C08)".into());
    }
    let mut got = f.els.clone();
    got.sort();
    if got != want {
        let class = if got.len() < want.len() {
            "element-missed"
        } else if got.len() > want.len() {
            "element-spurious"
        } else if got.iter().map(|e| (e.0, e.1)).eq(want.iter().map(|e| (e.0, e.1))) {
            "parent-differs"
        } else {
            "pairing-differs"
        };
        return Ok(Some((
            class.into(),
            format!("model (open,close,parent) {want:?}, parser {got:?}"),
        )));
    }
    let order: Vec<usize> = f.order.iter().map(|o| o.0).collect();
    if order != f.tokens {
        return Ok(Some((
            "token-order".into(),
            format!("tree visits tokens {order:?}, document order {:?}", f.tokens),
        )));
    }
    // every token that is not an endpoint of a model element must be a Text part
    for (pos, is_el) in &f.order {
        let endpoint = want.iter().any(|e| e.0 == *pos || e.1 == *pos);
        if *is_el != endpoint {
            return Ok(Some((
                "text-part".into(),
                format!("token at {pos}: element endpoint={is_el}, model endpoint={endpoint}"),
            )));
        }
    }
    Ok(None)
}

fn atoms(d: &Delims, rich: bool) -> Vec<String> {
    let mut v = vec![
        "t".to_string(),
        format!("{}a{}", d.ds, d.de),
        format!("{}/a{}", d.ds, d.de),
        // the second name has the first as a proper prefix
        format!("{}ab{}", d.ds, d.de),
        format!("{}/ab{}", d.ds, d.de),
        format!("{}/z{}", d.ds, d.de),
        // a closing tag that carries attributes is a closing tag all the same
        format!("{}/a x=\"1\" y{}", d.ds, d.de),
    ];
    if rich {
        // an opening tag with attributes (same name `a`) and a malformed tag
        v.push(format!("{}a x=\"1\" skip{}", d.ds, d.de));
        v.push(format!("{}={}", d.ds, d.de));
    }
    v
}

pub fn run(r: &Report) {
    r.set_rule("every sequence of <= N atoms over {text, open a, close a, open ab, close ab, close z, close a with attributes} (one name a proper prefix of the other) (thorough adds: open a with attributes, malformed tag) rendered with delimiters < > and <!-- < > -->; real tokenize+parser::parse flattened to (open,close,parent) triples vs. explicit-stack model, plus in-order token coverage; non-trivial = distinct documents containing a crossing, a same-name nesting or a stray tag");
    let (n_main, n_rich) = match r.tier {
        Tier::Quick => (7, 0),
        Tier::Thorough => (10, 8),
    };
    let mut spaces: Vec<(Delims, bool, usize)> = vec![
        (gen::POOL[0].clone(), false, n_main),
        (gen::POOL[1].clone(), false, n_main.min(8)),
    ];
    if n_rich > 0 {
        spaces.push((gen::POOL[0].clone(), true, n_rich));
    }
    for (d, rich, n) in spaces {
        if r.stopped() {
            break;
        }
        let at = atoms(&d, rich);
        let counted = explore_seqs(
            &at,
            n,
            || r.local(),
            |l: &mut Local, idx, doc| visit(l, idx, doc, &d),
            &|| r.stopped(),
        );
        r.expect_count(
            &format!("G-seq {:?}/{:?} rich={} N={}", d.ds, d.de, rich, n),
            seq_count(at.len() as u64, n as u32),
            counted,
        );
    }
}

fn visit(l: &mut Local, idx: &[usize], doc: &str, d: &Delims) {
    l.eval();
    l.transition(if idx.is_empty() { 0 } else { 1 });
    let h = hash64(&[doc.as_bytes(), d.ds.as_bytes()]);
    l.state(h);
    match check(doc, d.ds, d.de) {
        Err(_) => l.class("skipped-tokenization-differs"),
        Ok(res) => {
            l.trace_validated(1);
            let (want, _) = reference(doc, d.ds, d.de);
            // non-trivial: stray tag, crossing or same-name nesting; approximated on the index
            // sequence: number of tag atoms not consumed as element endpoints, or nested elements
            let n_tag_atoms = idx.iter().filter(|&&a| a != 0).count();
            let stray = n_tag_atoms > 2 * want.len();
            let nested = want.iter().any(|e| e.2.is_some());
            if !want.is_empty() && (stray || nested) {
                l.nontrivial(h);
            }
            l.class(match (want.len(), stray, nested) {
                (0, _, _) => "no-element",
                (_, false, false) => "flat-wellformed",
                (_, true, false) => "stray-tags",
                (_, false, true) => "nested",
                (_, true, true) => "nested+stray",
            });
            if let Some((class, detail)) = res {
                l.violation(Violation {
                    prop: "C10".into(),
                    class,
                    case: json!({"engine": "pair", "src": doc, "ds": d.ds, "de": d.de}),
                    detail,
                });
            } else if l.r.samples_len() < 6 && stray && nested && idx.len() >= 5 {
                l.r.sample(json!({"src": doc, "elements(open,close,parent)": want}));
            }
        }
    }
}

pub fn replay(case: &Value) -> Vec<Violation> {
    let (Some(src), Some(ds), Some(de)) = (
        case["src"].as_str(),
        case["ds"].as_str(),
        case["de"].as_str(),
    ) else {
        return vec![];
    };
    match check(src, ds, de) {
        Ok(Some((class, detail))) => vec![Violation {
            prop: "C10".into(),
            class,
            case: case.clone(),
            detail,
        }],
        _ => vec![],
    }
}
