//! C07 (lossless partition, consistent offsets) and C08 (leftmost-shortest recognition):
//! every string up to N atoms over the delimiter characters / prefixes plus fillers, for each
//! delimiter pair, run through the real `tokenizer::tokenize`.

use crate::explore::{explore_seqs, seq_count};
use crate::gen::{self, Delims};
use crate::harness::{guarded, hash64, panic_site_key};
use crate::refmodel::ref_tokenize;
use crate::report::{Local, Report, Tier, Violation};
use chiritori::tokenizer::{tokenize, TokenKind};
use serde_json::{json, Value};
use std::collections::BTreeSet;

#[derive(Debug, Clone, PartialEq)]
pub struct OTok {
    pub tag: bool,
    pub start: usize,
    pub byte_start: usize,
    pub end: usize,
    pub byte_end: usize,
    pub value: String,
}

pub fn run_tokenize(src: &str, ds: &str, de: &str) -> Result<Vec<OTok>, crate::harness::PanicInfo> {
    guarded(|| {
        tokenize(src, ds, de)
            .into_iter()
            .map(|t| OTok {
                tag: matches!(t.kind, TokenKind::Element(_)),
                start: t.start,
                byte_start: t.byte_start,
                end: t.end,
                byte_end: t.byte_end,
                value: t.value.to_string(),
            })
            .collect()
    })
}

fn case_json(src: &str, ds: &str, de: &str) -> Value {
    json!({"engine": "tok", "src": src, "ds": ds, "de": de})
}

/// C07 oracle (intrinsic). Returns (class, detail) of the first broken clause.
pub fn check_partition(src: &str, ds: &str, de: &str, toks: &[OTok]) -> Option<(String, String)> {
    let fail = |c: &str, d: String| Some((c.to_string(), d));
    if src.is_empty() {
        if !toks.is_empty() {
            return fail("tokens-for-empty-source", format!("{toks:?}"));
        }
        return None;
    }
    if toks.is_empty() {
        return fail("no-tokens", "non-empty source produced no token".into());
    }
    if toks[0].start != 0 || toks[0].byte_start != 0 {
        return fail("first-offset", format!("{:?}", toks[0]));
    }
    let nchars = src.chars().count();
    let mut concat = String::new();
    for (i, t) in toks.iter().enumerate() {
        if t.value.is_empty() || t.byte_end <= t.byte_start || t.end <= t.start {
            return fail("empty-token", format!("token {i}: {t:?}"));
        }
        if t.byte_end > src.len()
            || !src.is_char_boundary(t.byte_start)
            || !src.is_char_boundary(t.byte_end)
        {
            let last_mb = src.chars().last().map(|c| c.len_utf8() > 1).unwrap_or(false);
            let c = if i + 1 == toks.len() && last_mb {
                "byte-offset-final-multibyte"
            } else {
                "byte-offset-not-on-boundary"
            };
            return fail(c, format!("token {i}: {t:?} (source len {})", src.len()));
        }
        if src[t.byte_start..t.byte_end] != t.value {
            return fail("value-mismatch", format!("token {i}: {t:?}"));
        }
        if t.end - t.start != t.value.chars().count() {
            return fail("char-span-mismatch", format!("token {i}: {t:?}"));
        }
        if i + 1 < toks.len() {
            let n = &toks[i + 1];
            if t.end != n.start || t.byte_end != n.byte_start {
                return fail("not-contiguous", format!("token {i}: {t:?} next {n:?}"));
            }
            if !t.tag && !n.tag {
                return fail("adjacent-text", format!("token {i}: {t:?} next {n:?}"));
            }
        }
        if t.tag && !(t.value.starts_with(ds) && t.value.ends_with(de)) {
            return fail("tag-delimiters", format!("token {i}: {t:?}"));
        }
        concat.push_str(&t.value);
    }
    let l = toks.last().unwrap();
    if l.end != nchars || l.byte_end != src.len() {
        return fail("last-offset", format!("{l:?} chars={nchars} len={}", src.len()));
    }
    if concat != src {
        return fail("concat", format!("{concat:?}"));
    }
    None
}

/// C08 oracle: tag spans == reference spans.
pub fn check_spans(src: &str, ds: &str, de: &str, toks: &[OTok]) -> Option<(String, String)> {
    let r = ref_tokenize(src, ds, de);
    let want: Vec<(usize, usize)> = r.iter().filter(|t| t.tag).map(|t| (t.s, t.e)).collect();
    let got: Vec<(usize, usize)> = toks
        .iter()
        .filter(|t| t.tag)
        .map(|t| (t.byte_start, t.byte_end))
        .collect();
    if want == got {
        return None;
    }
    let class = if got.len() < want.len() {
        "tag-missed"
    } else if got.len() > want.len() {
        "tag-spurious"
    } else {
        "tag-span-differs"
    };
    Some((
        class.to_string(),
        format!("reference spans {want:?}, tokenizer spans {got:?}"),
    ))
}

/// Evidence metric: which (region, matched-prefix length, next char extends the match?) cells of
/// the textbook matcher does a string exercise. Computed on the reference tokenization.
fn matcher_cells(src: &str, ds: &str, de: &str, cells: &mut BTreeSet<(u8, u8, bool)>) {
    let r = ref_tokenize(src, ds, de);
    let dsc: Vec<char> = ds.chars().collect();
    let dec: Vec<char> = de.chars().collect();
    for t in &r {
        let text = &src[t.s..t.e];
        let (pat, region, skip) = if t.tag {
            (&dec, 1u8, dsc.len() + 1)
        } else {
            (&dsc, 0u8, 0)
        };
        let cs: Vec<char> = text.chars().collect();
        for i in skip..cs.len() {
            // k = longest suffix of cs[skip..i] that is a proper prefix of pat
            let mut k = (i - skip).min(pat.len() - 1);
            while k > 0 && cs[i - k..i] != pat[..k] {
                k -= 1;
            }
            let extends = cs[i] == pat[k];
            cells.insert((region, k as u8, extends));
        }
    }
}

struct W<'r> {
    l: Local<'r>,
    cells: BTreeSet<(u8, u8, bool)>,
}

pub struct Space {
    pub pairs: Vec<(Delims, usize)>,
    pub fillers: Vec<&'static str>,
    pub with_prefixes: bool,
}

pub fn run(r: &Report, which: &str) {
    let c07 = which == "C07";
    let space = match (c07, r.tier) {
        (true, Tier::Quick) => Space {
            pairs: [0usize, 1, 5, 6, 7, 8]
                .iter()
                .map(|&i| (gen::POOL[i].clone(), 5))
                .collect(),
            fillers: vec![" ", "\n", "a", "é", "あ", "🧹"],
            with_prefixes: true,
        },
        (true, Tier::Thorough) => Space {
            pairs: gen::pool_with_edge_space()
                .into_iter()
                .map(|d| {
                    let n = if d.ds.chars().count() + d.de.chars().count() <= 4 { 6 } else { 5 };
                    (d, n)
                })
                .collect(),
            fillers: vec![" ", "\n", "a", "é", "あ", "🧹"],
            with_prefixes: true,
        },
        (false, Tier::Quick) => Space {
            pairs: [0usize, 1, 2, 3, 4, 5, 8, 6]
                .iter()
                .map(|&i| gen::POOL[i].clone())
                .chain(gen::POOL_EDGE_SPACE.iter().cloned())
                .map(|d| {
                    let n = if d.ds.chars().count() + d.de.chars().count() <= 4 { 8 } else { 6 };
                    (d, n)
                })
                .collect(),
            fillers: vec!["a", " "],
            with_prefixes: true,
        },
        (false, Tier::Thorough) => Space {
            pairs: gen::pool_with_edge_space()
                .into_iter()
                .map(|d| {
                    // as many atoms as keep the pair's space below ~1.5e8 strings (alphabets have
                    // 4..20 atoms), at most 10, at least 6
                    let k = gen::tok_atoms(d.ds, d.de, &["a", " "], true).len() as f64;
                    let n = ((1.5e8f64).ln() / k.ln()).floor() as usize;
                    let n = n.clamp(6, 10);
                    (d, n)
                })
                .collect(),
            fillers: vec!["a", " "],
            with_prefixes: true,
        },
    };
    if c07 {
        r.set_rule("every string of <= N atoms over {each character of ds and de, every proper prefix (len>=2) of ds and de, ds, de, a whole tag, ' ', '\\n', 'a', 'é'(2B), 'あ'(3B), '🧹'(4B)} per delimiter pair (strings of <= 3 atoms also embedded in 67-byte, 4 KiB multi-byte and 5 KiB fillers), tokenized by the real tokenizer; oracle = the intrinsic partition clauses of C07; non-trivial = distinct strings with >= 1 reference tag token, or ending in a multi-byte character after a failed delimiter start");
    } else {
        r.set_rule("every string of <= N atoms over {each character of ds and de, every proper prefix (len>=2), overlap rests, ds, de, 'a', ' '} per delimiter pair (strings of <= 3 atoms also embedded in 67-byte, 4 KiB multi-byte and 5 KiB fillers); oracle = tag spans equal the textbook leftmost-shortest scan (reference uses str::find); non-trivial = distinct strings with >= 1 reference tag and >= 1 failed partial delimiter match");
    }
    r.assume("delimiters are non-empty (the subject unwraps the first delimiter character)");
    let mut per_pair = vec![];
    for (d, n) in &space.pairs {
        if r.stopped() {
            break;
        }
        let mut atoms = gen::tok_atoms(d.ds, d.de, &space.fillers, space.with_prefixes);
        if c07 {
            // a whole tag as one atom: several tags (directly adjacent, behind multi-byte text)
            // within the length bound
            atoms.push(format!("{}a{}", d.ds, d.de));
        }
        let ds = d.ds;
        let de = d.de;
        let counted = explore_seqs(
            &atoms,
            *n,
            || W {
                l: r.local(),
                cells: BTreeSet::new(),
            },
            |w: &mut W, idx, doc| {
                visit(w, c07, idx.len(), doc, ds, de);
            },
            &|| r.stopped(),
        );
        // workers flush their matcher-cell sets through Drop (below) when explore_seqs returns
        let expected = seq_count(atoms.len() as u64, *n as u32);
        r.expect_count(&format!("{:?}/{:?} N={}", ds, de, n), expected, counted);
        // full matcher table for this pair: regions {text: k in 0..|ds|-1, tag: k in 0..|de|-1} x {extends, not}
        let full = 2 * (ds.chars().count() + de.chars().count());
        let cells = CELLS.lock().unwrap().split_off(&(0, 0, false));
        per_pair.push(json!({"ds": ds, "de": de, "atoms": atoms.len(), "max_atoms": n, "strings": counted,
            "matcher_cells_visited": cells.len(), "matcher_cells_total": full}));
        if cells.len() != full && !r.stopped() {
            r.machinery_failure(format!(
                "matcher coverage incomplete for {ds:?}/{de:?}: {} of {} cells; visited {:?}",
                cells.len(),
                full,
                cells
            ));
        }
    }
    r.extra("per_delimiter_pair", Value::Array(per_pair));
}

static CELLS: std::sync::Mutex<BTreeSet<(u8, u8, bool)>> = std::sync::Mutex::new(BTreeSet::new());

impl<'r> Drop for W<'r> {
    fn drop(&mut self) {
        CELLS.lock().unwrap().extend(self.cells.iter().cloned());
    }
}

/// the same string embedded in long filler: a scan that changes strategy with the length of the
/// input (block-wise search, size thresholds) or mixes byte and character offsets far from the
/// start sees every short string again at a large offset
fn embeddings(doc: &str) -> Vec<String> {
    let a67 = "a".repeat(67);
    let mb = "あé🧹a".repeat(420); // 4200 bytes, 1680 characters
    vec![
        format!("{a67}{doc}"),
        format!("{doc}{a67}"),
        format!("{mb}{doc}{a67}{doc}"),
        format!("{}{doc}{}", "a".repeat(4099), "a".repeat(1030)),
    ]
}

fn visit(w: &mut W, c07: bool, depth: usize, doc: &str, ds: &str, de: &str) {
    visit_one(w, c07, depth, doc, ds, de);
    if (1..=3).contains(&depth) {
        for e in embeddings(doc) {
            visit_one(w, c07, depth, &e, ds, de);
        }
    }
}

fn visit_one(w: &mut W, c07: bool, depth: usize, doc: &str, ds: &str, de: &str) {
    let l = &mut w.l;
    l.eval();
    l.transition(if depth > 0 { 1 } else { 0 });
    let h = hash64(&[doc.as_bytes(), ds.as_bytes(), de.as_bytes()]);
    l.state(h);
    let prop = if c07 { "C07" } else { "C08" };
    let rt = ref_tokenize(doc, ds, de);
    let n_ref_tags = rt.iter().filter(|t| t.tag).count();
    matcher_cells(doc, ds, de, &mut w.cells);
    let l = &mut w.l;
    match run_tokenize(doc, ds, de) {
        Err(p) => {
            if c07 {
                l.class("panic");
                l.violation(Violation {
                    prop: prop.into(),
                    class: format!("panic@{}", panic_site_key(&p.site)),
                    case: case_json(doc, ds, de),
                    detail: format!("tokenize panicked: {}", p.site),
                });
            } else {
                // C08 is about spans; a panic is C07's / C01's business, but spans cannot agree
                l.class("panic");
                l.violation(Violation {
                    prop: prop.into(),
                    class: format!("panic@{}", panic_site_key(&p.site)),
                    case: case_json(doc, ds, de),
                    detail: format!("tokenize panicked: {}", p.site),
                });
            }
        }
        Ok(toks) => {
            l.trace_validated(1);
            let res = if c07 {
                check_partition(doc, ds, de, &toks)
            } else {
                check_spans(doc, ds, de, &toks)
            };
            let n_tags = toks.iter().filter(|t| t.tag).count();
            l.class(match (n_tags, toks.len()) {
                (0, 0) => "empty",
                (0, _) => "text-only",
                (1, 1) => "single-tag",
                (1, _) => "one-tag+text",
                _ => "multi-tag",
            });
            // non-triviality
            let failed_partial = has_failed_partial(doc, ds, de, &rt);
            if c07 {
                let last_mb = doc.chars().last().map(|c| c.len_utf8() > 1).unwrap_or(false);
                if n_ref_tags >= 1 || (last_mb && failed_partial) {
                    l.nontrivial(h);
                }
            } else if n_ref_tags >= 1 && failed_partial {
                l.nontrivial(h);
            }
            if let Some((class, detail)) = res {
                l.violation(Violation {
                    prop: prop.into(),
                    class,
                    case: case_json(doc, ds, de),
                    detail,
                });
            } else if l.r.samples_len() < 6 && n_tags >= 1 && failed_partial && depth >= 3 {
                l.r.sample(json!({"src": doc, "ds": ds, "de": de,
                    "tokens": toks.iter().map(|t| json!([if t.tag {"tag"} else {"text"}, t.byte_start, t.byte_end])).collect::<Vec<_>>()}));
            }
        }
    }
}

/// a first delimiter character occurs somewhere outside a complete match
fn has_failed_partial(src: &str, ds: &str, de: &str, rt: &[crate::refmodel::RTok]) -> bool {
    let d0 = ds.chars().next().unwrap();
    let e0 = de.chars().next().unwrap();
    for t in rt {
        let text = &src[t.s..t.e];
        if t.tag {
            let body = &text[ds.len()..text.len() - de.len()];
            // skip the compulsory first body character
            let mut it = body.chars();
            it.next();
            if it.as_str().contains(e0) {
                return true;
            }
        } else if text.contains(d0) {
            return true;
        }
    }
    false
}

pub fn replay(prop: &str, case: &Value) -> Vec<Violation> {
    let (Some(src), Some(ds), Some(de)) = (
        case["src"].as_str(),
        case["ds"].as_str(),
        case["de"].as_str(),
    ) else {
        return vec![];
    };
    let mut out = vec![];
    match run_tokenize(src, ds, de) {
        Err(p) => out.push(Violation {
            prop: prop.into(),
            class: format!("panic@{}", panic_site_key(&p.site)),
            case: case.clone(),
            detail: format!("tokenize panicked: {}", p.site),
        }),
        Ok(toks) => {
            let res = if prop == "C07" {
                check_partition(src, ds, de, &toks)
            } else {
                check_spans(src, ds, de, &toks)
            };
            if let Some((class, detail)) = res {
                out.push(Violation {
                    prop: prop.into(),
                    class,
                    case: case.clone(),
                    detail,
                });
            }
        }
    }
    out
}
