//! C09: tag grammar round-trips; quoted values are opaque.
//! Family 1: every tag of the grammar (name, k attributes, forms, values, separators, '='
//! spacing, padding) rendered, tokenized by the real tokenizer and parsed by the real
//! element_parser; expected = the grammar term that generated it.
//! Family 2: decisions are independent of the content of a quoted `c="..."` value.

use crate::explore::explore_product;
use crate::harness::{guarded, hash64, panic_site_key, run_clean, Cfg, TO_EXPIRED, TO_FUTURE};
use crate::report::{Local, Report, Tier, Violation};
use chiritori::element_parser;
use chiritori::tokenizer::{tokenize, TokenKind};
use serde_json::{json, Value};

type Parsed = Option<(String, Vec<(String, Option<String>)>)>;

/// tokenizes `src` and parses its single tag token
pub fn run_parse_tag(src: &str, ds: &str, de: &str) -> Result<Result<Parsed, String>, crate::harness::PanicInfo> {
    guarded(|| {
        let toks = tokenize(src, ds, de);
        let tags: Vec<_> = toks
            .iter()
            .filter(|t| matches!(t.kind, TokenKind::Element(_)))
            .collect();
        if tags.len() != 1 || tags[0].value != src {
            return Err(format!(
                "expected the whole source to be one tag token, got {} tag tokens",
                tags.len()
            ));
        }
        Ok(element_parser::parse(tags[0]).map(|e| {
            (
                e.name.to_string(),
                e.attrs
                    .iter()
                    .map(|a| (a.name.to_string(), a.value.map(|v| v.to_string())))
                    .collect(),
            )
        }))
    })
}

pub struct Pools {
    pub delims: Vec<(&'static str, &'static str)>,
    pub names: Vec<&'static str>,
    pub anames: Vec<&'static str>,
    /// values; the one containing the start delimiter is rendered per delimiter pair ("{ds}")
    pub values: Vec<&'static str>,
    pub seps: Vec<&'static str>,
    pub eqs: Vec<&'static str>,
    pub pads: Vec<&'static str>,
}

const VALUES_FULL: &[&str] = &[
    "v", "", "a b", "a=b", "{oq}", "l1\nl2", "skip", "unwrap-block", "/tl", "{ds}", "x  y",
    // characters whose code point ends in the byte of '"' (U+2122), '\'' (U+5927), ' ' (U+2020),
    // '=' (U+203D) and '\n' (U+010A): a byte-wise comparison of characters confuses them
    "A™ 大阪†‽Ċ z",
];

fn pools(tier: Tier, k: usize) -> Pools {
    let full = Pools {
        delims: vec![("<", ">"), ("<!-- <", "> -->"), ("/* <", "> */")],
        names: vec!["tl", "time-limited", "/tl", "名"],
        anames: vec!["to", "name", "c", "skip", "unwrap-block", "x-1", "*"],
        values: VALUES_FULL.to_vec(),
        seps: vec![" ", "  ", "\n", "\n  ", " \n * "],
        eqs: vec!["=", " =", "= ", " = "],
        pads: vec!["", " ", "  "],
    };
    match (tier, k) {
        (Tier::Thorough, 0..=1) => full,
        // 2*4*2*2 * (5*7*(1+2*11*3))^2 = 32 * 2345^2 ~ 1.8e8
        (Tier::Thorough, 2) => Pools {
            delims: vec![("<", ">"), ("<!-- <", "> -->")],
            eqs: vec!["=", " =", " = "],
            pads: vec!["", " "],
            ..full
        },
        // 2*2*1*1 * (5*3*(1+2*3*2))^3 = 4 * 195^3 ~ 3.0e7
        (Tier::Thorough, 3) => Pools {
            delims: vec![("<", ">"), ("<!-- <", "> -->")],
            names: vec!["tl", "/tl"],
            anames: vec!["to", "skip", "c"],
            values: vec!["v", "a b", "l1\nl2"],
            eqs: vec!["=", " = "],
            pads: vec![""],
            ..full
        },
        // (5*2*(1+2*2*1))^4 = 50^4 ~ 6.3e6
        (Tier::Thorough, _) => Pools {
            delims: vec![("<", ">")],
            names: vec!["tl"],
            anames: vec!["to", "c"],
            values: vec!["a b", "l1\nl2"],
            eqs: vec!["="],
            pads: vec![""],
            ..full
        },
        (Tier::Quick, 0..=1) => full,
        (Tier::Quick, 2) => Pools {
            delims: vec![("<", ">"), ("<!-- <", "> -->")],
            names: vec!["tl", "/tl", "名"],
            anames: vec!["to", "c", "skip", "*"],
            values: vec!["v", "", "a b", "a=b", "{oq}", "l1\nl2", "skip", "{ds}", "A™ 大阪†‽Ċ z"],
            eqs: vec!["=", " = "],
            pads: vec!["", " "],
            ..full
        },
        // (4*2*(1+2*2))^3 = 40^3 = 64000 ; k=4: 40^4 = 2.6e6
        (Tier::Quick, _) => Pools {
            delims: vec![("<", ">")],
            names: vec!["tl"],
            anames: vec!["to", "c"],
            values: vec!["v", "l1\nl2"],
            seps: vec![" ", "\n", "\n  ", " \n * "],
            eqs: vec!["="],
            pads: vec![""],
            ..full
        },
    }
}

/// number of attribute forms: bare, or (quote in {', "}) x value x eq-spacing
fn forms(p: &Pools) -> usize {
    1 + 2 * p.values.len() * p.eqs.len()
}

pub struct TagCase {
    pub src: String,
    pub ds: String,
    pub de: String,
    pub name: String,
    pub attrs: Vec<(String, Option<String>)>,
    pub nontrivial: bool,
}

/// digits: [delim, name, padl, padr, (sep, aname, form) * k]
fn build(p: &Pools, k: usize, dg: &[usize]) -> TagCase {
    let (ds, de) = p.delims[dg[0]];
    let name = p.names[dg[1]];
    let mut body = String::new();
    body.push_str(p.pads[dg[2]]);
    body.push_str(name);
    let mut attrs = vec![];
    let mut nontrivial = false;
    for i in 0..k {
        let sep = p.seps[dg[4 + 3 * i]];
        let an = p.anames[dg[5 + 3 * i]];
        let form = dg[6 + 3 * i];
        body.push_str(sep);
        if sep.contains('*') {
            attrs.push(("*".to_string(), None));
        }
        if sep.contains('\n') {
            nontrivial = true;
        }
        body.push_str(an);
        if form == 0 {
            attrs.push((an.to_string(), None));
        } else {
            let f = form - 1;
            let q = if f % 2 == 0 { '\'' } else { '"' };
            let f = f / 2;
            let v = p.values[f % p.values.len()];
            let eq = p.eqs[f / p.values.len()];
            let v = v
                .replace("{ds}", ds)
                .replace("{oq}", if q == '\'' { "say \"hi\"" } else { "it's" });
            body.push_str(eq);
            body.push(q);
            body.push_str(&v);
            body.push(q);
            if v.contains([' ', '=', '\n', '\'', '"'])
                || v == "skip"
                || v == "unwrap-block"
                || v == "/tl"
                || v.contains(ds)
            {
                nontrivial = true;
            }
            attrs.push((an.to_string(), Some(v)));
        }
    }
    body.push_str(p.pads[dg[3]]);
    TagCase {
        src: format!("{ds}{body}{de}"),
        ds: ds.into(),
        de: de.into(),
        name: name.into(),
        attrs,
        nontrivial,
    }
}

fn strip_star(a: &[(String, Option<String>)]) -> Vec<(String, Option<String>)> {
    // The comment-continuation separator " \n * " contains a '*' that the stated grammar reads
    // as a bare word; whether an implementation reports or swallows it is not observable by
    // users, so bare '*' words are ignored on both sides.
    a.iter()
        .filter(|x| !(x.0 == "*" && x.1.is_none()))
        .cloned()
        .collect()
}

pub fn check_tag(
    src: &str,
    ds: &str,
    de: &str,
    name: &str,
    attrs: &[(String, Option<String>)],
) -> Option<(String, String)> {
    match run_parse_tag(src, ds, de) {
        Err(p) => Some((
            format!("panic@{}", panic_site_key(&p.site)),
            format!("panicked: {}", p.site),
        )),
        Ok(Err(e)) => Some(("not-one-tag-token".into(), e)),
        Ok(Ok(None)) => Some((
            "rejected".into(),
            "element_parser::parse returned None for a well-formed tag".into(),
        )),
        Ok(Ok(Some((n, a)))) => {
            let (ga, wa) = (strip_star(&a), strip_star(attrs));
            if n == name && ga == wa {
                return None;
            }
            let class = if n != name {
                "name-differs"
            } else if a.iter().any(|x| x.0.starts_with('\n')) {
                "linebreak-glued-to-attribute-name"
            } else if ga.len() != wa.len() {
                "attribute-count-differs"
            } else if ga.iter().map(|x| &x.0).ne(wa.iter().map(|x| &x.0)) {
                "attribute-name-differs"
            } else {
                "attribute-value-differs"
            };
            Some((
                class.into(),
                format!("expected ({name:?}, {wa:?}), parsed ({n:?}, {a:?})"),
            ))
        }
    }
}

fn case_json(c: &TagCase) -> Value {
    json!({"engine": "tag", "src": c.src, "ds": c.ds, "de": c.de, "name": c.name,
        "attrs": c.attrs.iter().map(|a| json!([a.0, a.1])).collect::<Vec<_>>()})
}

pub fn run(r: &Report) {
    r.set_rule("family 1: every tag of the grammar name x k attributes (k<=2 full pools; k=3,4 reduced pools) x {bare,'v',\"v\"} x value pool x separator pool x '=' spacing x padding x delimiter spellings, tokenized and parsed by the real code, compared with the generating term (bare '*' words from the ' \\n * ' separator ignored on both sides); family 2: clean() decisions with an adversarial quoted c=\"...\" value vs. c=\"x\"; non-trivial = distinct tags with a quoted value containing a separator, '=', quote, keyword or ds, or with a line break between attributes");
    let kmax = 4;
    for k in 0..=kmax {
        if r.stopped() {
            break;
        }
        let p = pools(r.tier, k);
        let mut radices = vec![p.delims.len(), p.names.len(), p.pads.len(), p.pads.len()];
        for _ in 0..k {
            radices.push(p.seps.len());
            radices.push(p.anames.len());
            radices.push(forms(&p));
        }
        let expected: u64 = radices.iter().map(|&x| x as u64).product();
        let counted = explore_product(
            &radices,
            || r.local(),
            |l: &mut Local, dg| {
                let c = build(&p, k, dg);
                l.eval();
                l.transition(1);
                let h = hash64(&[c.src.as_bytes(), c.ds.as_bytes()]);
                l.state(h);
                if c.nontrivial {
                    l.nontrivial(h);
                }
                l.trace_validated(1);
                match check_tag(&c.src, &c.ds, &c.de, &c.name, &c.attrs) {
                    None => {
                        l.class(match k {
                            0 => "ok-k0",
                            1 => "ok-k1",
                            2 => "ok-k2",
                            3 => "ok-k3",
                            _ => "ok-k4",
                        });
                        if l.r.samples_len() < 5 && c.nontrivial && k >= 2 && dg[4] == 3 {
                            l.r.sample(json!({"tag": c.src, "name": c.name, "attrs": c.attrs.iter().map(|a| json!([a.0, a.1])).collect::<Vec<_>>()}));
                        }
                    }
                    Some((class, detail)) => {
                        l.class("mismatch");
                        l.violation(Violation {
                            prop: "C09".into(),
                            class,
                            case: case_json(&c),
                            detail,
                        });
                    }
                }
            },
            &|| r.stopped(),
        );
        r.expect_count(&format!("G-tag k={k}"), expected, counted);
    }
    if !r.stopped() {
        opaque_family(r);
    }
}

// ---- family 2: quoted values are opaque to decisions -------------------------------------------

const OPAQUE_VALUES: &[&str] = &[
    "skip",
    " skip ",
    "x skip y",
    "unwrap-block",
    "a unwrap-block b",
    "/tl",
    "to='2999-01-01 00:00:00'",
    "to='2000-01-01 00:00:00'",
    "name='a'",
    "skip unwrap-block /tl to='2999-01-01 00:00:00' name='b'",
    "a=b",
    "l1\nl2",
    "l1\n skip\n",
    "{ds}",
    "{ds}/tl",
    "{ds}tl to='2000-01-01 00:00:00'",
    "it's",
    "A™ skip 大 skip †skip",
    "=",
    "  ",
    "",
];

struct OpaqueCase {
    src_v: String,
    src_x: String,
    tag_v: String,
    tag_x: String,
    ds: String,
    de: String,
}

fn opaque_docs(ds: &str, de: &str) -> Vec<OpaqueCase> {
    let mut out = vec![];
    // real attributes: (tag name, attrs before c, attrs after c, unwrap?)
    let reals: Vec<(&str, String, String)> = vec![
        ("tl", format!("to=\"{TO_EXPIRED}\""), String::new()),
        ("tl", format!("to=\"{TO_FUTURE}\""), String::new()),
        ("tl", String::new(), format!("to=\"{TO_EXPIRED}\"")),
        ("tl", String::new(), format!("to=\"{TO_FUTURE}\"")),
        ("tl", format!("to=\"{TO_EXPIRED}\""), "skip".to_string()),
        ("tl", format!("to=\"{TO_EXPIRED}\""), "unwrap-block".to_string()),
        ("rm", "name=\"a\"".to_string(), String::new()),
        ("rm", String::new(), "name=\"b\"".to_string()),
        ("zz", format!("to=\"{TO_EXPIRED}\""), String::new()),
    ];
    for (name, before, after) in &reals {
        for v in OPAQUE_VALUES {
            let v = v.replace("{ds}", ds);
            if v.contains(de) {
                continue;
            }
            for q in ['"', '\''] {
                if v.contains(q) {
                    continue;
                }
                let mk = |val: &str| {
                    let mut b = name.to_string();
                    if !before.is_empty() {
                        b.push(' ');
                        b.push_str(before);
                    }
                    b.push_str(&format!(" c={q}{val}{q}"));
                    if !after.is_empty() {
                        b.push(' ');
                        b.push_str(after);
                    }
                    format!("{ds}{b}{de}")
                };
                let (tag_v, tag_x) = (mk(&v), mk("x"));
                let doc = |t: &str| {
                    format!(
                        "k1();\n{t}\nif (k2) {{\n  k3();\n  k4();\n}}\n{ds}/{name}{de}\nk5();\n"
                    )
                };
                out.push(OpaqueCase {
                    src_v: doc(&tag_v),
                    src_x: doc(&tag_x),
                    tag_v,
                    tag_x,
                    ds: ds.into(),
                    de: de.into(),
                });
            }
        }
    }
    out
}

fn check_opaque(c: &OpaqueCase) -> Option<(String, String)> {
    let cfg = Cfg::standard();
    let ov = run_clean(&c.src_v, &c.ds, &c.de, &cfg);
    let ox = run_clean(&c.src_x, &c.ds, &c.de, &cfg);
    match (ov, ox) {
        (Err(p), _) | (_, Err(p)) => Some((
            format!("panic@{}", panic_site_key(&p.site)),
            format!("clean panicked: {}", p.site),
        )),
        (Ok(ov), Ok(ox)) => {
            let mapped = ox.replace(&c.tag_x, &c.tag_v);
            if mapped == ov {
                None
            } else {
                Some((
                    "quoted-value-changes-decision".into(),
                    format!(
                        "with c=\"x\": {ox:?}; with the adversarial value: {ov:?} (expected {mapped:?})"
                    ),
                ))
            }
        }
    }
}

fn opaque_family(r: &Report) {
    let mut l = r.local();
    let mut n = 0u64;
    let mut decided_removed = 0u64;
    for (ds, de) in [("<", ">"), ("<!-- <", "> -->"), ("/* <", "> */"), ("%%", "%%")] {
        for c in opaque_docs(ds, de) {
            n += 1;
            l.eval();
            l.transition(1);
            let h = hash64(&[c.src_v.as_bytes(), ds.as_bytes()]);
            l.state(h);
            l.nontrivial(h);
            l.trace_validated(1);
            match check_opaque(&c) {
                None => {
                    l.class("opaque-ok");
                    if let Ok(o) = run_clean(&c.src_v, &c.ds, &c.de, &Cfg::standard()) {
                        if o != c.src_v {
                            decided_removed += 1;
                        }
                    }
                }
                Some((class, detail)) => {
                    l.class("opaque-mismatch");
                    l.violation(Violation {
                        prop: "C09".into(),
                        class,
                        case: json!({"engine": "tag-opaque", "src_v": c.src_v, "src_x": c.src_x,
                            "tag_v": c.tag_v, "tag_x": c.tag_x, "ds": c.ds, "de": c.de}),
                        detail,
                    });
                }
            }
        }
    }
    r.extra("opaque_value_documents", json!(n));
    r.extra("opaque_value_documents_with_removal", json!(decided_removed));
}

pub fn replay(case: &Value) -> Vec<Violation> {
    let mk = |class: String, detail: String| Violation {
        prop: "C09".into(),
        class,
        case: case.clone(),
        detail,
    };
    if case["engine"] == "tag-opaque" {
        let g = |k: &str| case[k].as_str().unwrap_or("").to_string();
        let c = OpaqueCase {
            src_v: g("src_v"),
            src_x: g("src_x"),
            tag_v: g("tag_v"),
            tag_x: g("tag_x"),
            ds: g("ds"),
            de: g("de"),
        };
        return check_opaque(&c).map(|(c, d)| mk(c, d)).into_iter().collect();
    }
    let (Some(src), Some(ds), Some(de), Some(name)) = (
        case["src"].as_str(),
        case["ds"].as_str(),
        case["de"].as_str(),
        case["name"].as_str(),
    ) else {
        return vec![];
    };
    let attrs: Vec<(String, Option<String>)> = case["attrs"]
        .as_array()
        .map(|a| {
            a.iter()
                .map(|x| {
                    (
                        x[0].as_str().unwrap_or("").to_string(),
                        x[1].as_str().map(|s| s.to_string()),
                    )
                })
                .collect()
        })
        .unwrap_or_default();
    check_tag(src, ds, de, name, &attrs)
        .map(|(c, d)| mk(c, d))
        .into_iter()
        .collect()
}
