//! C20: the CLI is a faithful wrapper. Finite product of menus (document x mode x input route x
//! output route x delimiters x tag names x offset x current time x targets x TZ x locale), every
//! combination: the real binary is run and its bytes compared with the in-process library result
//! for the corresponding configuration. Also provides the command-line rows of C06.

use crate::explore::explore_product;
use crate::harness::{hash64, run_clean, run_list, Cfg, ListMode};
use crate::report::{Local, Report, Tier, Violation};
use serde_json::{json, Value};
use std::io::Write;
use std::process::{Command, Stdio};
use std::sync::atomic::{AtomicU64, Ordering};

pub fn bin() -> String {
    format!("{}/target/cli/release/chiritori", crate::report::verif_dir())
}
fn tmp_root() -> String {
    format!("{}/target/tmp", crate::report::verif_dir())
}

#[derive(Debug, Clone, PartialEq)]
pub struct CliCase {
    pub src: String,
    /// "clean" | "list" | "list-all" | "list-json" | "list-all-json"
    pub mode: String,
    pub stdin: bool,
    /// "stdout" | "file" | "inplace"
    pub out: String,
    pub delims: Option<(String, String)>,
    pub names: Option<(String, String)>,
    pub offset: Option<String>,
    pub now: String,
    pub flag_targets: Vec<String>,
    /// content of the target config file, if any
    pub file_targets: Option<String>,
    pub tz: Option<String>,
    pub lc_all: String,
    /// 0 = minimal environment; 1, 2 = two hostile environments (see `hostile_env`)
    pub env: u8,
}

impl CliCase {
    pub fn to_json(&self) -> Value {
        json!({"engine": "cli", "src": self.src, "mode": self.mode, "stdin": self.stdin, "out": self.out,
            "delims": self.delims.as_ref().map(|d| json!([d.0, d.1])),
            "names": self.names.as_ref().map(|d| json!([d.0, d.1])),
            "offset": self.offset, "now": self.now, "flag_targets": self.flag_targets,
            "file_targets": self.file_targets, "tz": self.tz, "lc_all": self.lc_all, "env": self.env})
    }
    pub fn from_json(v: &Value) -> Option<CliCase> {
        let pair = |x: &Value| -> Option<(String, String)> {
            let a = x.as_array()?;
            Some((a[0].as_str()?.to_string(), a[1].as_str()?.to_string()))
        };
        Some(CliCase {
            src: v["src"].as_str()?.to_string(),
            mode: v["mode"].as_str()?.to_string(),
            stdin: v["stdin"].as_bool()?,
            out: v["out"].as_str()?.to_string(),
            delims: pair(&v["delims"]),
            names: pair(&v["names"]),
            offset: v["offset"].as_str().map(|s| s.to_string()),
            now: v["now"].as_str()?.to_string(),
            flag_targets: v["flag_targets"]
                .as_array()?
                .iter()
                .filter_map(|x| x.as_str().map(|s| s.to_string()))
                .collect(),
            file_targets: v["file_targets"].as_str().map(|s| s.to_string()),
            tz: v["tz"].as_str().map(|s| s.to_string()),
            lc_all: v["lc_all"].as_str()?.to_string(),
            env: v["env"].as_u64().unwrap_or(0) as u8,
        })
    }
    /// The configuration the options stand for, with the documented defaults.
    pub fn expected_cfg(&self) -> (String, String, Cfg) {
        let (ds, de) = self
            .delims
            .clone()
            .unwrap_or(("<!-- <".into(), "> -->".into()));
        let (tl, rm) = self
            .names
            .clone()
            .unwrap_or(("time-limited".into(), "removal-marker".into()));
        let mut targets: Vec<String> = vec![];
        if let Some(f) = &self.file_targets {
            targets.extend(f.lines().map(|s| s.to_string()));
        }
        targets.extend(self.flag_targets.iter().cloned());
        (
            ds,
            de,
            Cfg {
                tl,
                rm,
                now: self.now.clone(),
                off: self.offset.clone().unwrap_or("+00:00".into()),
                targets,
            },
        )
    }
    pub fn expected_output(&self) -> Result<String, String> {
        let (ds, de, cfg) = self.expected_cfg();
        let r = match self.mode.as_str() {
            "clean" => run_clean(&self.src, &ds, &de, &cfg).map(Ok),
            "list" => run_list(&self.src, &ds, &de, &cfg, ListMode::List, false),
            "list-json" => run_list(&self.src, &ds, &de, &cfg, ListMode::List, true),
            "list-all" => run_list(&self.src, &ds, &de, &cfg, ListMode::ListAll, false),
            "list-all-json" => run_list(&self.src, &ds, &de, &cfg, ListMode::ListAll, true),
            m => return Err(format!("harness: unknown mode {m}")),
        };
        match r {
            Err(p) => Err(format!("library panicked: {}", p.site)),
            Ok(Err(e)) => Err(format!("library error: {e}")),
            Ok(Ok(s)) => Ok(s),
        }
    }
}

static DIR_CTR: AtomicU64 = AtomicU64::new(0);

pub struct WorkDir {
    pub path: String,
}
impl WorkDir {
    pub fn new() -> WorkDir {
        let n = DIR_CTR.fetch_add(1, Ordering::Relaxed);
        let path = format!("{}/run-{}-{}", tmp_root(), std::process::id(), n);
        let _ = std::fs::create_dir_all(&path);
        WorkDir { path }
    }
}
impl Drop for WorkDir {
    fn drop(&mut self) {
        let _ = std::fs::remove_dir_all(&self.path);
    }
}

pub struct RunOut {
    pub status: Option<i32>,
    pub stdout: Vec<u8>,
    pub stderr: Vec<u8>,
    pub produced: Vec<u8>,
}

/// Environment variables a command-line tool might consult although nothing documents it: clock
/// overrides, colour / terminal switches, and for every long option an upper-case variable (bare
/// and with the program's name in front) holding a value that would change the result.
pub fn hostile_env(which: u8) -> Vec<(String, String)> {
    if which == 0 {
        return vec![];
    }
    let past = which == 1;
    let mut v: Vec<(String, String)> = vec![
        ("SOURCE_DATE_EPOCH", if past { "0" } else { "4102444800" }),
        ("FAKETIME", if past { "1980-01-01 00:00:00" } else { "2999-01-01 00:00:00" }),
        ("NOW", if past { "1980-01-01T00:00:00Z" } else { "2999-01-01T00:00:00Z" }),
        ("NO_COLOR", "1"),
        ("CLICOLOR", "0"),
        ("CLICOLOR_FORCE", if past { "0" } else { "1" }),
        ("TERM", if past { "dumb" } else { "xterm-256color" }),
        ("COLORTERM", "truecolor"),
        ("COLUMNS", "10"),
        ("LINES", "3"),
        ("HOME", "/nonexistent"),
        ("USER", "nobody"),
        ("LANGUAGE", "ja:en"),
        ("LC_TIME", "ja_JP.UTF-8"),
        ("LC_CTYPE", "ja_JP.UTF-8"),
        ("RUST_LOG", "trace"),
        ("RUST_BACKTRACE", "1"),
        ("POSIXLY_CORRECT", "1"),
        ("DEBUG", "1"),
        ("CI", "true"),
    ]
    .into_iter()
    .map(|(k, v)| (k.to_string(), v.to_string()))
    .collect();
    let opts: &[(&str, &str)] = &[
        ("filename", "/nonexistent/in"),
        ("output", "/nonexistent/out"),
        ("delimiter-start", "[["),
        ("delimiter-end", "]]"),
        ("time-limited-tag-name", "zz"),
        ("time-limited-time-offset", if past { "-12:00" } else { "+14:00" }),
        ("time-limited-current", if past { "1980-01-01T00:00:00Z" } else { "2999-01-01T00:00:00Z" }),
        ("removal-marker-tag-name", "yy"),
        ("removal-marker-target-name", "a"),
        ("removal-marker-target-config", "/nonexistent/targets"),
        ("list", "true"),
        ("list-all", "true"),
        ("list-json", "true"),
    ];
    for (o, val) in opts {
        let up = o.to_uppercase().replace('-', "_");
        v.push((up.clone(), val.to_string()));
        v.push((format!("CHIRITORI_{up}"), val.to_string()));
    }
    v
}

pub fn run_binary(c: &CliCase, wd: &WorkDir) -> Result<RunOut, String> {
    let inp = format!("{}/in.txt", wd.path);
    let outp = format!("{}/out.txt", wd.path);
    let tgt = format!("{}/targets.txt", wd.path);
    let _ = std::fs::remove_file(&outp);
    let mut cmd = Command::new(bin());
    cmd.env_clear();
    cmd.env("PATH", "/usr/bin:/bin");
    cmd.env("LC_ALL", &c.lc_all);
    cmd.env("LANG", &c.lc_all);
    if let Some(tz) = &c.tz {
        cmd.env("TZ", tz);
    }
    for (k, v) in hostile_env(c.env) {
        cmd.env(k, v);
    }
    if !c.stdin || c.out == "inplace" {
        std::fs::write(&inp, &c.src).map_err(|e| format!("harness: {e}"))?;
    }
    if !c.stdin {
        cmd.arg("--filename").arg(&inp);
    }
    match c.out.as_str() {
        "stdout" => {}
        "file" => {
            cmd.arg("--output").arg(&outp);
        }
        "inplace" => {
            cmd.arg("--output").arg(&inp);
        }
        o => return Err(format!("harness: unknown out {o}")),
    }
    if let Some((ds, de)) = &c.delims {
        cmd.arg(format!("--delimiter-start={ds}"));
        cmd.arg(format!("--delimiter-end={de}"));
    }
    if let Some((tl, rm)) = &c.names {
        cmd.arg(format!("--time-limited-tag-name={tl}"));
        cmd.arg(format!("--removal-marker-tag-name={rm}"));
    }
    if let Some(off) = &c.offset {
        cmd.arg(format!("--time-limited-time-offset={off}"));
    }
    cmd.arg(format!("--time-limited-current={}", c.now));
    for t in &c.flag_targets {
        cmd.arg(format!("--removal-marker-target-name={t}"));
    }
    if let Some(f) = &c.file_targets {
        std::fs::write(&tgt, f).map_err(|e| format!("harness: {e}"))?;
        cmd.arg("--removal-marker-target-config").arg(&tgt);
    }
    match c.mode.as_str() {
        "clean" => {}
        "list" => {
            cmd.arg("--list");
        }
        "list-json" => {
            cmd.arg("--list").arg("--list-json");
        }
        "list-all" => {
            cmd.arg("--list-all");
        }
        "list-all-json" => {
            cmd.arg("--list-all").arg("--list-json");
        }
        m => return Err(format!("harness: unknown mode {m}")),
    }
    cmd.stdout(Stdio::piped()).stderr(Stdio::piped());
    cmd.stdin(if c.stdin { Stdio::piped() } else { Stdio::null() });
    let mut child = cmd.spawn().map_err(|e| format!("harness: cannot spawn {}: {e}", bin()))?;
    if c.stdin {
        let mut si = child.stdin.take().unwrap();
        let _ = si.write_all(c.src.as_bytes());
        drop(si);
    }
    let o = child
        .wait_with_output()
        .map_err(|e| format!("harness: wait failed: {e}"))?;
    let produced = match c.out.as_str() {
        "stdout" => o.stdout.clone(),
        "file" => std::fs::read(&outp).unwrap_or_default(),
        _ => std::fs::read(&inp).unwrap_or_default(),
    };
    Ok(RunOut {
        status: o.status.code(),
        stdout: o.stdout,
        stderr: o.stderr,
        produced,
    })
}

pub fn check(c: &CliCase, wd: &WorkDir) -> Result<Option<(String, String)>, String> {
    let want = c.expected_output()?;
    let got = run_binary(c, wd)?;
    if got.status != Some(0) {
        return Ok(Some((
            "exit-status".into(),
            format!(
                "exit status {:?}, stderr {:?}",
                got.status,
                String::from_utf8_lossy(&got.stderr)
            ),
        )));
    }
    if c.out != "stdout" && !got.stdout.is_empty() {
        return Ok(Some((
            "stdout-not-empty-with-output".into(),
            format!("{:?}", String::from_utf8_lossy(&got.stdout)),
        )));
    }
    if got.produced != want.as_bytes() {
        let (_, _, cfg) = c.expected_cfg();
        // classify: would the result match if some default leaked a target?
        let class = if c.flag_targets.is_empty() && {
            let mut alt = c.clone();
            alt.flag_targets = vec!["vec![]".into()];
            alt.expected_output().map(|s| s.as_bytes() == got.produced).unwrap_or(false)
        } {
            "default-value-leaks-a-target"
        } else if c.out != "stdout" && got.produced.is_empty() {
            "output-file-missing-or-empty"
        } else {
            "bytes-differ-from-library"
        };
        return Ok(Some((
            class.into(),
            format!(
                "binary produced {:?}; library gives {:?} for cfg {}",
                String::from_utf8_lossy(&got.produced),
                want,
                cfg.to_json()
            ),
        )));
    }
    Ok(None)
}

// ---- document menu -------------------------------------------------------------------------

/// templates use {DS} {DE} {TL} {RM}
const DOCS: &[&str] = &[
    // D1: blocks, inline, unwrap; three expiry classes; two marker names
    "top();\n{DS}{TL} to=\"2000-01-01 00:00:00\"{DE}\n  old();\n{DS}/{TL}{DE}\n\nmid(); {DS}{TL} to=\"2025-01-01 00:00:00\"{DE}inline();{DS}/{TL}{DE} after();\n  {DS}{TL} to=\"2030-06-01 12:00:00\" unwrap-block{DE}\n  if (flag) {\n    body();\n  }\n  {DS}/{TL}{DE}\n{DS}{RM} name=\"a\"{DE}\nfeature_a();\n{DS}/{RM}{DE}\n{DS}{RM} name=\"b\"{DE}\nfeature_b();\n{DS}/{RM}{DE}\n{DS}{TL} to=\"2999-01-01 00:00:00\"{DE}\nlater();\n{DS}/{TL}{DE}\nend();\n",
    // D2: markers named after every string that --help shows as a default
    "x();\n{DS}{RM} name=\"vec![]\"{DE}\nd1();\n{DS}/{RM}{DE}\n{DS}{RM} name=\"\"{DE}\nd2();\n{DS}/{RM}{DE}\n{DS}{RM} name=\"+00:00\"{DE}\nd3();\n{DS}/{RM}{DE}\n{DS}{RM} name=\"time-limited\"{DE}\nd4();\n{DS}/{RM}{DE}\n{DS}{RM} name=\"removal-marker\"{DE}\nd5();\n{DS}/{RM}{DE}\n{DS}{RM} name=\"a\"{DE}\nd6();\n{DS}/{RM}{DE}\ny();\n",
    // D3: multi-byte text, nesting, skip, no final newline
    "あいう🧹();\n{DS}{TL} to=\"2999-01-01 00:00:00\"{DE}\n  {DS}{RM} name=\"a\"{DE}\n  内側();\n  {DS}/{RM}{DE}\n  {DS}{TL} to=\"2000-01-01 00:00:00\" skip{DE}\n  kept();\n  {DS}/{TL}{DE}\n{DS}/{TL}{DE}\n末尾();",
    // D4: nothing registered, stray tags, first byte a line break
    "\n{DS}/{TL}{DE}\nplain();\n{DS}other x=\"1\"{DE}\nq();\n{DS}/other{DE}\n{DS}{RM}{DE}\n",
];

const MODES: &[&str] = &["clean", "list", "list-all", "list-json", "list-all-json"];
// the same kind of instant in three zone spellings (Z, east of UTC, west of UTC)
const NOWS: &[&str] = &[
    "2020-01-01T00:00:00Z",
    "2030-06-01T12:00:00+09:00",
    // west of UTC, and before every `to` in the documents: if the explicit instant were lost and
    // the wall clock used instead, the expired elements would be removed
    // ... and inside the hour that the clocks of America/Los_Angeles repeat (01:30 PDT on the last
    // Sunday of October 1995): a detour through local wall-clock time is ambiguous there
    "1995-10-29T01:30:00-07:00",
];
const TZS: &[Option<&str>] = &[
    Some("UTC"),
    Some("Asia/Tokyo"),
    Some("America/Los_Angeles"),
    None,
];
const LCS: &[&str] = &["C", "ja_JP.UTF-8"];

fn render_doc(t: &str, c: &CliCase) -> String {
    let (ds, de, cfg) = c.expected_cfg();
    t.replace("{DS}", &ds)
        .replace("{DE}", &de)
        .replace("{TL}", &cfg.tl)
        .replace("{RM}", &cfg.rm)
}

struct W<'r> {
    l: Local<'r>,
    wd: WorkDir,
}

pub fn run(r: &Report) {
    if !std::path::Path::new(&bin()).exists() {
        r.machinery_failure(format!("{} not built", bin()));
        return;
    }
    r.set_rule("every combination of: document (4 hand-written incl. one whose markers are named after every default string; thorough adds AST-generated ones) x mode {clean, --list, --list-all, --list --list-json, --list-all --list-json} x input {--filename, stdin pipe} x output {stdout, --output new file, --output = input file} x delimiters {default, custom} x tag names {default, custom} x offset {default, +09:00} x current time {2 RFC 3339 instants} x targets {none, flags, config file, both, file with trailing empty line} x TZ {UTC, Asia/Tokyo, America/Los_Angeles, unset} x LC_ALL {C, ja_JP.UTF-8} (quick: TZ in {UTC, Asia/Tokyo, unset}, locale C, the 4 hand-written documents); oracle: bytes produced == in-process library result for the documented defaults, exit 0, stdout empty with --output; non-trivial = distinct runs whose expected output differs from the input (clean) or is a non-empty list");
    r.assume("tzdata present; stderr is ignored; invalid option combinations (stdin with in-place output) are mapped to a new output file");
    let mut docs: Vec<String> = DOCS.iter().map(|s| s.to_string()).collect();
    let (tzs, lcs): (Vec<Option<&str>>, Vec<&str>) = match r.tier {
        Tier::Quick => {
            (vec![Some("UTC"), Some("Asia/Tokyo"), Some("America/Los_Angeles"), None], vec!["C"])
        }
        Tier::Thorough => {
            docs.extend(ast_docs(8));
            (TZS.to_vec(), LCS.to_vec())
        }
    };
    // targets menu: (flags, file)
    let target_menu: Vec<(Vec<&str>, Option<&str>)> = vec![
        (vec![], None),
        (vec!["a", "+00:00"], None),
        (vec![], Some("a\n+00:00\n")),
        (vec!["b"], Some("a\ntime-limited")),
        (vec![], Some("a\n\n")),
    ];
    let radices = [
        docs.len(),
        MODES.len(),
        2,
        3,
        2,
        2,
        2,
        NOWS.len(),
        target_menu.len(),
        tzs.len(),
        lcs.len(),
    ];
    let expected: u64 = radices.iter().map(|&x| x as u64).product();
    let counted = explore_product(
        &radices,
        || W {
            l: r.local(),
            wd: WorkDir::new(),
        },
        |w: &mut W, dg| {
            let stdin = dg[2] == 1;
            let out = match (dg[3], stdin) {
                (0, _) => "stdout",
                (1, _) => "file",
                (_, false) => "inplace",
                (_, true) => "file",
            };
            let mut c = CliCase {
                src: String::new(),
                mode: MODES[dg[1]].into(),
                stdin,
                out: out.into(),
                delims: if dg[4] == 1 { Some(("/* <".into(), "> */".into())) } else { None },
                names: if dg[5] == 1 { Some(("tl".into(), "印".into())) } else { None },
                offset: if dg[6] == 1 { Some("+09:00".into()) } else { None },
                now: NOWS[dg[7]].into(),
                flag_targets: target_menu[dg[8]].0.iter().map(|s| s.to_string()).collect(),
                file_targets: target_menu[dg[8]].1.map(|s| s.to_string()),
                tz: tzs[dg[9]].map(|s| s.to_string()),
                lc_all: lcs[dg[10]].into(),
                env: 0,
            };
            c.src = render_doc(&docs[dg[0]], &c);
            let l = &mut w.l;
            l.eval();
            l.transition(1);
            let h = hash64(&[c.to_json().to_string().as_bytes()]);
            l.state(h);
            match check(&c, &w.wd) {
                Err(e) => l.r.machinery_failure(format!("cli harness: {e} on {}", c.to_json())),
                Ok(res) => {
                    l.trace_validated(1);
                    let want = c.expected_output().unwrap_or_default();
                    let nontrivial = if c.mode == "clean" { want != c.src } else { want.len() > 3 };
                    if nontrivial {
                        l.nontrivial(h);
                    }
                    l.class(match c.mode.as_str() {
                        "clean" => if nontrivial { "clean-removes" } else { "clean-identity" },
                        _ => if nontrivial { "list-nonempty" } else { "list-empty" },
                    });
                    if let Some((class, detail)) = res {
                        l.violation(Violation {
                            prop: "C20".into(),
                            class,
                            case: c.to_json(),
                            detail,
                        });
                    } else if l.r.samples_len() < 4 && nontrivial && dg[8] == 3 && dg[3] == 2 {
                        let mut j = c.to_json();
                        j["src"] = json!(format!("<document #{}>", dg[0]));
                        l.r.sample(j);
                    }
                }
            }
        },
        &|| r.stopped(),
    );
    r.expect_count("CLI option product", expected, counted);
    r.extra("process_runs", json!(counted));
    if !r.stopped() {
        big_documents(r);
        if !r.stopped() {
            hostile_environments(r);
        }
    }
}

/// Documents larger than any plausible I/O buffer (1 KiB .. > 64 KiB pipe capacity), mostly
/// multi-byte text, in three byte alignments so that every power-of-two offset falls inside
/// a character for some alignment: input and output routes x modes, default options.
/// The hand-written documents in every mode under the two hostile environments: nothing but the
/// options (and the documented defaults) may shape the result.
fn hostile_environments(r: &Report) {
    let radices = [DOCS.len(), MODES.len(), 2, NOWS.len(), 2, 2];
    let expected: u64 = radices.iter().map(|&x| x as u64).product();
    let counted = explore_product(
        &radices,
        || W {
            l: r.local(),
            wd: WorkDir::new(),
        },
        |w: &mut W, dg| {
            let mut c = CliCase {
                src: String::new(),
                mode: MODES[dg[1]].into(),
                stdin: dg[2] == 1,
                out: "stdout".into(),
                delims: None,
                names: None,
                offset: None,
                now: NOWS[dg[3]].into(),
                flag_targets: if dg[4] == 1 { vec!["b".into()] } else { vec![] },
                file_targets: None,
                tz: Some("America/Los_Angeles".into()),
                lc_all: "C".into(),
                env: 1 + dg[5] as u8,
            };
            c.src = render_doc(DOCS[dg[0]], &c);
            let l = &mut w.l;
            l.eval();
            l.transition(1);
            let h = hash64(&[c.to_json().to_string().as_bytes()]);
            l.state(h);
            match check(&c, &w.wd) {
                Err(e) => l.r.machinery_failure(format!("cli harness: {e} on {}", c.to_json())),
                Ok(res) => {
                    l.trace_validated(1);
                    l.class("hostile-environment");
                    let want = c.expected_output().unwrap_or_default();
                    if if c.mode == "clean" { want != c.src } else { want.len() > 3 } {
                        l.nontrivial(h);
                    }
                    if let Some((class, detail)) = res {
                        l.violation(Violation {
                            prop: "C20".into(),
                            class,
                            case: c.to_json(),
                            detail,
                        });
                    }
                }
            }
        },
        &|| r.stopped(),
    );
    r.expect_count("C20 hostile environments", expected, counted);
}

fn big_documents(r: &Report) {
    let line = "// これは日本語のコメントです。削除されない行🧹。\n";
    let block = "<!-- <time-limited to=\"2001-01-01 00:00:00\"> -->\n期限切れ🧹\n<!-- </time-limited> -->\n";
    let sizes: &[usize] = if r.tier == Tier::Quick { &[60, 1200] } else { &[20, 60, 150, 1200, 3000] };
    let mut docs: Vec<String> = vec![];
    for &n in sizes {
        for pre in ["", "x", "xy"] {
            docs.push(format!("{pre}{}{block}{}", line.repeat(n), line.repeat(3)));
            docs.push(format!("{pre}{}", line.repeat(n)));
        }
    }
    // a last line without line break that is longer than the buffers between the command and its
    // standard output (1 KiB line buffer, 8 KiB block buffer, 64 KiB pipe)
    let tails: &[usize] =
        if r.tier == Tier::Quick { &[1024, 70_000] } else { &[1023, 1024, 1025, 8192, 8193, 70_000, 300_000] };
    for &k in tails {
        docs.push(format!("head();\n{block}{}", "m".repeat(k)));
        docs.push(format!("{block}{}🧹", "あ".repeat(k / 3 + 1)));
    }
    // degenerate inputs: nothing at all, a line break only, one character without line break
    docs.extend(["", "\n", "x", "\n\n", "🧹"].map(String::from));
    let modes = ["clean", "list-json", "list-all"];
    let radices = [docs.len(), modes.len(), 2, 3];
    let expected: u64 = radices.iter().map(|&x| x as u64).product();
    let counted = explore_product(
        &radices,
        || W {
            l: r.local(),
            wd: WorkDir::new(),
        },
        |w: &mut W, dg| {
            let stdin = dg[2] == 1;
            let out = match (dg[3], stdin) {
                (0, _) => "stdout",
                (1, _) => "file",
                (_, false) => "inplace",
                (_, true) => "file",
            };
            let c = CliCase {
                src: docs[dg[0]].clone(),
                mode: modes[dg[1]].into(),
                stdin,
                out: out.into(),
                delims: None,
                names: None,
                offset: None,
                now: NOWS[0].into(),
                flag_targets: vec![],
                file_targets: None,
                tz: Some("UTC".into()),
                lc_all: "C".into(),
                env: 0,
            };
            let l = &mut w.l;
            l.eval();
            l.transition(1);
            let h = hash64(&[c.to_json().to_string().as_bytes()]);
            l.state(h);
            l.nontrivial(h);
            match check(&c, &w.wd) {
                Err(e) => l.r.machinery_failure(format!("cli harness: {e} (big document #{})", dg[0])),
                Ok(res) => {
                    l.trace_validated(1);
                    l.class("big-multibyte-document");
                    if let Some((class, detail)) = res {
                        let detail: String = detail.chars().take(400).collect();
                        l.violation(Violation {
                            prop: "C20".into(),
                            class,
                            case: c.to_json(),
                            detail,
                        });
                    }
                }
            }
        },
        &|| r.stopped(),
    );
    r.expect_count("CLI big-document product", expected, counted);
    r.extra("big_document_process_runs", json!(counted));
    r.extra("big_document_sizes_bytes", json!(docs.iter().map(|d| d.len()).collect::<Vec<_>>()));
}

fn ast_docs(n: usize) -> Vec<String> {
    // a fixed menu of generated documents: every tree of a small G-ast grammar whose index in
    // the enumeration is a multiple of a stride, rendered as a template
    use crate::explore::Chooser;
    use crate::gen::{self, AstParams, Delims, Kind, Names, RenderOpts};
    let p = AstParams {
        max_lines: 6,
        max_depth: 2,
        block_kinds: vec![Kind::Expired, Kind::Targeted, Kind::Future],
        inline_kinds: vec![Kind::Expired],
        unwrap: true,
        ws_lines: false,
        mb: true,
        extra_indent: false,
        blank: true,
        rich: false,
        short_unwrap: false,
        shared_lines: false,
        shared_pairs: vec![],
    };
    let mut all: Vec<String> = vec![];
    let d = Delims { ds: "{DS}", de: "{DE}" };
    let names = Names { tl: "{TL}".into(), rm: "{RM}".into() };
    let mut script: Vec<u32> = vec![];
    let mut i = 0usize;
    loop {
        let mut ch = Chooser::new(script.clone());
        let items = gen::gen_doc(&mut ch, &p);
        if i % 997 == 500 && gen::size(&items) >= 5 {
            let rd = gen::render(&items, &RenderOpts { d: &d, names: &names, unit: "  ", tag_ids: false, final_newline: true, plain: false });
            all.push(rd.src);
            if all.len() >= n {
                break;
            }
        }
        i += 1;
        let tr = ch.trace;
        let mut j = tr.len();
        let mut nxt = None;
        while j > 0 {
            j -= 1;
            if tr[j].0 + 1 < tr[j].1 {
                let mut s: Vec<u32> = tr[..j].iter().map(|c| c.0).collect();
                s.push(tr[j].0 + 1);
                nxt = Some(s);
                break;
            }
        }
        match nxt {
            Some(s) => script = s,
            None => break,
        }
    }
    all
}

// ---- C06's command-line rows ------------------------------------------------------------------

pub fn marker_rows(r: &Report) {
    if !std::path::Path::new(&bin()).exists() {
        r.machinery_failure(format!("{} not built", bin()));
        return;
    }
    // names an option parser or a shell-like layer might split, expand or trim
    let mut pool: Vec<&str> = crate::props::marker::NAME_POOL.to_vec();
    pool.extend(["a,b", "a b", "a=b", "x;y", "a:b", "日本語", "*", "$HOME", "%s", "~", " a", "a "]);
    // option rows: none / flag = the name / file = the name / flag = another name / file = other /
    // flag = a longer string that contains the name as a comma-separated piece (two orders) / file = the same
    let rows = 8usize;
    let radices = [pool.len(), rows, 2];
    let expected: u64 = radices.iter().map(|&x| x as u64).product();
    let counted = explore_product(
        &radices,
        || W {
            l: r.local(),
            wd: WorkDir::new(),
        },
        |w: &mut W, dg| {
            let name = pool[dg[0]];
            let other = if name == "a" { "ab" } else { "a" };
            let (flags, file): (Vec<String>, Option<String>) = match dg[1] {
                0 => (vec![], None),
                1 => (vec![name.to_string()], None),
                2 => (vec![], Some(format!("{name}\n"))),
                3 => (vec![other.to_string()], None),
                4 => (vec![], Some(format!("{other}\n"))),
                5 => (vec![format!("{name},zz")], None),
                6 => (vec![format!("zz,{name}")], None),
                _ => (vec![], Some(format!("{name},zz\n"))),
            };
            let c = CliCase {
                src: format!("k1();\n<!-- <removal-marker name=\"{name}\"> -->\nPROBE();\n<!-- </removal-marker> -->\nk2();\n"),
                mode: "clean".into(),
                stdin: dg[2] == 1,
                out: "stdout".into(),
                delims: None,
                names: None,
                offset: None,
                now: "2020-01-01T00:00:00Z".into(),
                flag_targets: flags,
                file_targets: file,
                tz: Some("UTC".into()),
                lc_all: "C".into(),
                env: 0,
            };
            let l = &mut w.l;
            l.eval();
            l.transition(1);
            let h = hash64(&[c.to_json().to_string().as_bytes()]);
            l.state(h);
            l.nontrivial(h);
            // independent oracle (not via the library): removed <=> name in the given targets
            let want_removed = match dg[1] {
                1 | 2 => true,
                _ => false,
            };
            match run_binary(&c, &w.wd) {
                Err(e) => l.r.machinery_failure(format!("cli harness: {e}")),
                Ok(o) => {
                    l.trace_validated(1);
                    let out = String::from_utf8_lossy(&o.produced).to_string();
                    let removed = !out.contains("PROBE");
                    l.class(if want_removed { "cli-targeted" } else { "cli-not-targeted" });
                    if o.status != Some(0) || removed != want_removed {
                        let class = if removed && dg[1] == 0 {
                            "removed-without-any-target-option"
                        } else if removed {
                            "cli-non-member-removed"
                        } else {
                            "cli-member-not-removed"
                        };
                        l.violation(Violation {
                            prop: "C06".into(),
                            class: class.into(),
                            case: c.to_json(),
                            detail: format!("status {:?}; marker name {name:?}, flags {:?}, file {:?}: removed={removed}, expected removed={want_removed}", o.status, c.flag_targets, c.file_targets),
                        });
                    }
                }
            }
        },
        &|| r.stopped(),
    );
    r.expect_count("C06 command-line rows", expected, counted);
    r.extra("cli_process_runs", json!(counted));
}

pub fn replay(prop: &str, case: &Value) -> Vec<Violation> {
    let Some(c) = CliCase::from_json(case) else {
        return vec![];
    };
    let wd = WorkDir::new();
    if prop == "C06" {
        // removed <=> marker name is among the given targets
        let name = c
            .src
            .split("name=\"")
            .nth(1)
            .and_then(|s| s.split('"').next())
            .unwrap_or("")
            .to_string();
        let mut targets: Vec<String> = c.flag_targets.clone();
        if let Some(f) = &c.file_targets {
            targets.extend(f.lines().map(|s| s.to_string()));
        }
        let want_removed = targets.contains(&name);
        return match run_binary(&c, &wd) {
            Ok(o) => {
                let out = String::from_utf8_lossy(&o.produced).to_string();
                let removed = !out.contains("PROBE");
                if o.status != Some(0) || removed != want_removed {
                    let class = if removed && targets.is_empty() {
                        "removed-without-any-target-option"
                    } else if removed {
                        "cli-non-member-removed"
                    } else {
                        "cli-member-not-removed"
                    };
                    vec![Violation {
                        prop: "C06".into(),
                        class: class.into(),
                        case: case.clone(),
                        detail: format!("status {:?}; marker name {name:?}, flags {:?}, file {:?}: removed={removed}, expected removed={want_removed}", o.status, c.flag_targets, c.file_targets),
                    }]
                } else {
                    vec![]
                }
            }
            Err(_) => vec![],
        };
    }
    match check(&c, &wd) {
        Ok(Some((class, detail))) => vec![Violation {
            prop: "C20".into(),
            class,
            case: case.clone(),
            detail,
        }],
        _ => vec![],
    }
}
