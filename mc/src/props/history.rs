//! C19: cleaning is idempotent and composes over time.
//! For every G-ast document whose elements carry expiry times from {T1<T2<T3} and marker names
//! from {a,b}: breadth-first search over the history graph whose states are (text, last
//! configuration) and whose edges apply the real `clean` with a configuration >= the last one
//! (times non-decreasing, target sets growing). Invariants are evaluated in every state.

use crate::align::nonws;
use crate::explore::{count_choices, explore_choices, Chooser};
use crate::gen::{self, AstParams, Item, Kind, Names, RenderOpts};
use crate::harness::{hash64, panic_site_key, run_clean, Cfg};
use crate::report::{Local, Report, Tier, Violation};
use serde_json::{json, Value};
use std::collections::HashSet;

const TIMES: &[&str] = &[
    "1990-01-01T00:00:00+00:00", // t0 < T1 = 2000
    "2020-01-01T00:00:00+00:00", // T1 <= t1 < T2 = 2500
    "2600-01-01T00:00:00+00:00", // T2 <= t2 < T3 = 2999
    "3005-01-01T00:00:00+00:00", // T3 <= t3
];
const TARGETS: &[&[&str]] = &[&[], &["a"], &["a", "b"]];

#[derive(Debug, Clone, Copy, PartialEq, Eq, Hash, PartialOrd, Ord)]
pub struct C(pub u8, pub u8);

fn cfg_of(c: C) -> Cfg {
    Cfg {
        now: TIMES[c.0 as usize].into(),
        targets: TARGETS[c.1 as usize].iter().map(|s| s.to_string()).collect(),
        ..Cfg::standard()
    }
}

fn all_cfgs() -> Vec<C> {
    let mut v = vec![];
    for i in 0..TIMES.len() as u8 {
        for k in 0..TARGETS.len() as u8 {
            v.push(C(i, k));
        }
    }
    v
}

fn kind_ready(k: Kind, c: C) -> bool {
    match k {
        Kind::Expired => c.0 >= 1,
        Kind::Later => c.0 >= 2,
        Kind::Future => c.0 >= 3,
        Kind::Targeted => c.1 >= 1,
        Kind::Untargeted => c.1 >= 2,
        Kind::SkipExpired | Kind::SkipFuture | Kind::Unregistered => false,
    }
}

fn clean_c(text: &str, c: C) -> Result<String, (String, String)> {
    run_clean(text, "<", ">", &cfg_of(c)).map_err(|p| {
        (
            format!("panic@{}", panic_site_key(&p.site)),
            format!("clean panicked: {}", p.site),
        )
    })
}

pub struct Stats {
    pub states: u64,
    pub edges: u64,
    pub multi_reached: u64,
    pub two_step_removals: u64,
}

/// BFS over histories of length <= max_len starting from `src`. `ready_tags(c)` = opening tag
/// texts of the elements that are ready under configuration c (by construction).
pub fn bfs(
    src: &str,
    max_len: usize,
    ready_tags: &dyn Fn(C) -> Vec<String>,
    stats: &mut Stats,
) -> Option<(String, String, Vec<C>)> {
    let cfgs = all_cfgs();
    // direct results
    let mut direct: Vec<Option<String>> = vec![];
    for &c in &cfgs {
        match clean_c(src, c) {
            Ok(o) => direct.push(Some(o)),
            Err((cl, d)) => return Some((cl, d, vec![c])),
        }
    }
    let direct_of = |c: C| direct[cfgs.iter().position(|x| *x == c).unwrap()].as_ref().unwrap();
    // layer 0: the initial text with "no configuration yet"
    let mut frontier: Vec<(String, Option<C>, Vec<C>, bool)> = vec![(src.to_string(), None, vec![], false)];
    let mut seen: HashSet<(u64, C)> = HashSet::new();
    let mut reach_count: std::collections::HashMap<(u64, C), u32> = std::collections::HashMap::new();
    for _depth in 0..max_len {
        let mut next = vec![];
        for (text, last, hist, removed_before) in &frontier {
            for &c in &cfgs {
                if let Some(l) = last {
                    if !(l.0 <= c.0 && l.1 <= c.1) {
                        continue;
                    }
                }
                stats.edges += 1;
                let out = match clean_c(text, c) {
                    Ok(o) => o,
                    Err((cl, d)) => {
                        let mut h = hist.clone();
                        h.push(c);
                        return Some((cl, d, h));
                    }
                };
                let mut h = hist.clone();
                h.push(c);
                let removed_now = out != *text;
                if removed_now && *removed_before {
                    stats.two_step_removals += 1;
                }
                // invariant 1: idempotence (self-loop, exact)
                match clean_c(&out, c) {
                    Ok(again) => {
                        if again != out {
                            let class = if nonws(again.as_bytes()) == nonws(out.as_bytes()) {
                                "not-idempotent-whitespace"
                            } else {
                                "not-idempotent-text"
                            };
                            return Some((
                                class.into(),
                                format!("history {h:?}: state {out:?} cleaned again with the same configuration gives {again:?}"),
                                h,
                            ));
                        }
                    }
                    Err((cl, d)) => return Some((cl, d, h)),
                }
                // invariant 2: confluence up to whitespace with the one-shot result
                if nonws(out.as_bytes()) != nonws(direct_of(c).as_bytes()) {
                    // which way?
                    let tags = ready_tags(c);
                    let stranded = tags.iter().any(|t| out.contains(t.as_str()));
                    let class = if stranded {
                        "ready-tag-stranded-by-earlier-run"
                    } else {
                        "stepwise-differs-from-one-shot"
                    };
                    return Some((
                        class.into(),
                        format!("history {h:?}: stepwise {out:?} vs one-shot {:?}", direct_of(c)),
                        h,
                    ));
                }
                // invariant 3: no tag of an element that is ready under c occurs in the state
                for t in ready_tags(c) {
                    if out.contains(t.as_str()) {
                        return Some((
                            "ready-tag-stranded-by-earlier-run".into(),
                            format!("history {h:?}: tag {t:?} of a ready element survives in {out:?}"),
                            h,
                        ));
                    }
                }
                let key = (hash64(&[out.as_bytes()]), c);
                *reach_count.entry(key).or_insert(0) += 1;
                if seen.insert(key) {
                    stats.states += 1;
                    next.push((out, Some(c), h, *removed_before || removed_now));
                }
            }
        }
        frontier = next;
    }
    stats.multi_reached += reach_count.values().filter(|&&n| n >= 2).count() as u64;
    None
}

fn ready_tags_of(rd: &gen::Rendered) -> impl Fn(C) -> Vec<String> + '_ {
    move |c: C| {
        rd.elems
            .iter()
            .filter(|e| kind_ready(e.kind, c))
            .map(|e| rd.src[e.open.0..e.open.1].to_string())
            .collect()
    }
}

pub fn run(r: &Report) {
    r.set_rule("initial states: every G-ast tree up to the line budget whose elements are time-limited with expiry T1<T2<T3 (2000, 2500, 2999), markers named a / b, or skip; configurations = (time in {t0<T1<=t1<T2<=t2<T3<=t3}) x (target set in {} c {a} c {a,b}); edges: clean with any configuration >= the last one in both components; BFS over (text, configuration) to history length L with deduplication; invariants in every state: exact idempotence, equality up to whitespace with the one-shot result, no tag of a ready element stranded; non-trivial = distinct documents having a history in which >= 2 steps each removed something");
    r.assume("sources in which delimiter strings occur only as parts of tags (C19's restriction) - true of G-ast documents");
    let (p, max_len) = match r.tier {
        Tier::Quick => (
            AstParams {
                max_lines: 5,
                max_depth: 2,
                block_kinds: vec![Kind::Expired, Kind::Later, Kind::Targeted],
                inline_kinds: vec![Kind::Expired],
                unwrap: true,
                ws_lines: false,
                mb: false,
                extra_indent: false,
                blank: true,
                rich: false,
                short_unwrap: false,
                shared_lines: true,
                shared_pairs: vec![(Kind::Expired, Kind::Expired), (Kind::Expired, Kind::Later)],
            },
            3,
        ),
        Tier::Thorough => (
            AstParams {
                max_lines: 6,
                max_depth: 3,
                block_kinds: vec![Kind::Expired, Kind::Later, Kind::Future, Kind::Targeted, Kind::Untargeted],
                inline_kinds: vec![Kind::Expired, Kind::Later],
                unwrap: true,
                ws_lines: false,
                mb: false,
                extra_indent: false,
                blank: true,
                rich: false,
                short_unwrap: false,
                shared_lines: true,
                shared_pairs: vec![(Kind::Expired, Kind::Expired), (Kind::Expired, Kind::Later)],
            },
            4,
        ),
    };
    let names = Names::short();
    let d = &gen::POOL[0];
    let tot_states = std::sync::atomic::AtomicU64::new(0);
    let tot_edges = std::sync::atomic::AtomicU64::new(0);
    let tot_multi = std::sync::atomic::AtomicU64::new(0);
    let single = count_choices(|ch| {
        gen::gen_doc(ch, &p);
    });
    let counted = explore_choices(
        |ch: &mut Chooser| gen::gen_doc(ch, &p),
        3,
        || r.local(),
        |l: &mut Local, items: Vec<Item>, _trace| {
            let rd = gen::render(
                &items,
                &RenderOpts {
                    d,
                    names: &names,
                    unit: "  ",
                    tag_ids: true,
                    final_newline: true,
                    plain: false,
                },
            );
            if rd.elems.is_empty() {
                return;
            }
            l.eval();
            let h = hash64(&[rd.src.as_bytes()]);
            let mut st = Stats {
                states: 0,
                edges: 0,
                multi_reached: 0,
                two_step_removals: 0,
            };
            let rt = ready_tags_of(&rd);
            let res = bfs(&rd.src, max_len, &rt, &mut st);
            l.transition(st.edges);
            l.trace_validated(st.edges);
            tot_states.fetch_add(st.states, std::sync::atomic::Ordering::Relaxed);
            tot_edges.fetch_add(st.edges, std::sync::atomic::Ordering::Relaxed);
            tot_multi.fetch_add(st.multi_reached, std::sync::atomic::Ordering::Relaxed);
            l.state(h);
            if st.two_step_removals > 0 {
                l.nontrivial(h);
                l.class("multi-step-removal");
            } else {
                l.class("single-step-removal-only");
            }
            if let Some((class, detail, hist)) = res {
                l.violation(Violation {
                    prop: "C19".into(),
                    class,
                    case: json!({"engine": "history", "src": rd.src, "max_len": max_len,
                        "history": hist.iter().map(|c| json!([c.0, c.1])).collect::<Vec<_>>(),
                        "ready_tags": all_cfgs().iter().map(|&c| json!({"cfg": [c.0, c.1], "tags": rt(c)})).collect::<Vec<_>>()}),
                    detail,
                });
            } else if st.two_step_removals > 0 && l.r.samples_len() < 5 && items.len() >= 2 {
                l.r.sample(json!({"initial": rd.src, "graph_states": st.states, "graph_edges": st.edges}));
            }
        },
        &|| r.stopped(),
    );
    r.expect_count("G-ast trees (parallel split vs single-threaded count)", single, counted);
    r.extra("history_graph_states", json!(tot_states.load(std::sync::atomic::Ordering::Relaxed)));
    r.extra("history_graph_edges", json!(tot_edges.load(std::sync::atomic::Ordering::Relaxed)));
    r.extra("states_reached_by_two_or_more_histories", json!(tot_multi.load(std::sync::atomic::Ordering::Relaxed)));
    r.extra("max_history_length", json!(max_len));
}

pub fn replay(case: &Value) -> Vec<Violation> {
    let Some(src) = case["src"].as_str() else {
        return vec![];
    };
    let max_len = case["max_len"].as_u64().unwrap_or(3) as usize;
    let tags: Vec<(C, Vec<String>)> = case["ready_tags"]
        .as_array()
        .map(|a| {
            a.iter()
                .map(|x| {
                    (
                        C(
                            x["cfg"][0].as_u64().unwrap_or(0) as u8,
                            x["cfg"][1].as_u64().unwrap_or(0) as u8,
                        ),
                        x["tags"]
                            .as_array()
                            .map(|t| t.iter().filter_map(|s| s.as_str().map(|s| s.to_string())).collect())
                            .unwrap_or_default(),
                    )
                })
                .collect()
        })
        .unwrap_or_default();
    let rt = move |c: C| -> Vec<String> {
        tags.iter()
            .find(|t| t.0 == c)
            .map(|t| t.1.clone())
            .unwrap_or_default()
    };
    let mut st = Stats {
        states: 0,
        edges: 0,
        multi_reached: 0,
        two_step_removals: 0,
    };
    bfs(src, max_len, &rt, &mut st)
        .map(|(class, detail, _)| Violation {
            prop: "C19".into(),
            class,
            case: case.clone(),
            detail,
        })
        .into_iter()
        .collect()
}
