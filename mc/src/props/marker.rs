//! C06: marker and skip decision. Finite product: all target sets over a name pool x element
//! name forms x skip layouts x attribute order x tag-name configurations x element tag names;
//! every combination observed through clean() on a probe document. The rows that involve the
//! command line (no target option at all, targets from flags / config file) run the binary.

use crate::explore::explore_product;
use crate::harness::{hash64, panic_site_key, run_clean, Cfg, TO_EXPIRED};
use crate::refmodel::{ref_tag, status, RCfg, Status};
use crate::report::{Local, Report, Tier, Violation};
use serde_json::{json, Value};

/// prefixes / superstrings / case variants of each other, the empty string, and every string
/// that `--help` shows as an option default
pub const NAME_POOL: &[&str] = &[
    "a",
    "ab",
    "A",
    "b",
    "",
    "vec![]",
    "time-limited",
    "+00:00",
    "skip",
    "removal-marker",
];

#[derive(Debug, Clone, Copy, PartialEq)]
enum NameForm {
    Quoted(usize),
    Missing,
    Valueless,
    Unquoted,
}

const SKIP_LAYOUTS: &[&str] = &[
    "absent", "first", "middle", "last", "c=\"skip\"", "c='x skip y'", "c=\"skip\" + skip last",
];

const TAGNAME_CFGS: &[(&str, &str)] = &[
    ("time-limited", "removal-marker"),
    ("tl", "rm"),
    ("rm", "tl"),
    ("期限", "印"),
    // one name a proper prefix of the other
    ("tl", "t"),
];

#[derive(Debug, Clone)]
pub struct Probe {
    pub src: String,
    pub tag: String,
    pub cfg: Cfg,
}

fn build(dg: &[usize], pool: &[&str]) -> (Probe, bool) {
    // digits: [target set bitmask, name form, skip layout, order, tagname cfg, element tag]
    let targets: Vec<String> = (0..pool.len())
        .filter(|i| dg[0] >> i & 1 == 1)
        .map(|i| pool[i].to_string())
        .collect();
    let nf = match dg[1] {
        x if x < pool.len() => NameForm::Quoted(x),
        x if x == pool.len() => NameForm::Missing,
        x if x == pool.len() + 1 => NameForm::Valueless,
        _ => NameForm::Unquoted,
    };
    let (tl, rm) = TAGNAME_CFGS[dg[4]];
    let tag = match dg[5] {
        0 => tl.to_string(),
        1 => rm.to_string(),
        2 => "zz".to_string(),
        _ => {
            // case variant of the marker name (identity for caseless scripts: then use a suffix)
            let up = rm.to_uppercase();
            if up == rm {
                format!("{rm}x")
            } else {
                up
            }
        }
    };
    let name_attr = match nf {
        // spellings of the same attribute: double quotes, single quotes, blanks around '='
        NameForm::Quoted(i) => Some(match dg.get(6).copied().unwrap_or(0) {
            0 => format!("name=\"{}\"", pool[i]),
            1 => format!("name='{}'", pool[i]),
            _ => format!("name = \"{}\"", pool[i]),
        }),
        NameForm::Missing => None,
        NameForm::Valueless => Some("name".to_string()),
        NameForm::Unquoted => Some("name=a".to_string()),
    };
    let to_attr = format!("to=\"{TO_EXPIRED}\"");
    let mut attrs: Vec<String> = vec![];
    if dg[3] == 0 {
        attrs.extend(name_attr.clone());
        attrs.push(to_attr);
    } else {
        attrs.push(to_attr);
        attrs.extend(name_attr.clone());
    }
    match dg[2] {
        0 => {}
        1 => attrs.insert(0, "skip".into()),
        2 => attrs.insert(1.min(attrs.len()), "skip".into()),
        3 => attrs.push("skip".into()),
        4 => attrs.push("c=\"skip\"".into()),
        5 => attrs.insert(0, "c='x skip y'".into()),
        _ => {
            attrs.insert(0, "c=\"skip\"".into());
            attrs.push("skip".into());
        }
    }
    let tagtext = format!("<{} {}>", tag, attrs.join(" "));
    // decoys before and after the probe: same tag name, same attribute values, other attribute
    // names - never ready on their own account, and must not influence the probe
    let decoy_attrs: Vec<String> = attrs
        .iter()
        .map(|a| {
            if let Some(rest) = a.strip_prefix("name") {
                format!("id{rest}")
            } else if let Some(rest) = a.strip_prefix("to=") {
                format!("until={rest}")
            } else if a == "skip" {
                "skipped".to_string()
            } else {
                a.clone()
            }
        })
        .collect();
    let decoy = format!("<{} {}>\nDECOY();\n</{tag}>\n", tag, decoy_attrs.join(" "));
    let src = format!("k1();\n{decoy}{tagtext}\nPROBE();\n</{tag}>\n{decoy}k2();\n");
    let cfg = Cfg {
        tl: tl.into(),
        rm: rm.into(),
        targets,
        ..Cfg::standard()
    };
    // non-trivial: the value is a prefix/superstring/case variant of some target (but maybe not
    // equal), or the probe carries `skip` in any form
    let nontrivial = dg[2] != 0
        || match nf {
            NameForm::Quoted(i) => cfg.targets.iter().any(|t| {
                let v = pool[i];
                t != v
                    && (t.starts_with(v) || v.starts_with(t.as_str()) || t.eq_ignore_ascii_case(v))
            }),
            _ => true,
        };
    (
        Probe {
            src,
            tag: tagtext,
            cfg,
        },
        nontrivial,
    )
}

pub fn check(p: &Probe) -> Option<(String, String)> {
    // reference decision from the tag text alone
    let body = &p.tag[1..p.tag.len() - 1];
    let rt = ref_tag(body).expect("harness: probe tag must be well-formed");
    let st = status(&rt, &RCfg::from(&p.cfg));
    let want = st == Status::Ready;
    match run_clean(&p.src, "<", ">", &p.cfg) {
        Err(e) => Some((
            format!("panic@{}", panic_site_key(&e.site)),
            format!("clean panicked: {}", e.site),
        )),
        Ok(out) => {
            if out.matches("DECOY").count() != 2 {
                return Some((
                    "neighbour-element-affected".into(),
                    format!("an element without name/to next to the probe was removed: {out:?}"),
                ));
            }
            let removed = !out.contains("PROBE") && !out.contains(&p.tag);
            let untouched = out == p.src;
            if removed == untouched {
                return Some((
                    "probe-inconclusive".into(),
                    format!("probe neither removed nor untouched: {out:?}"),
                ));
            }
            if removed == want {
                return None;
            }
            let has_skip = rt.attrs.iter().any(|a| a.0 == "skip");
            let class = if removed && has_skip {
                "skip-ignored"
            } else if removed && rt.name != p.cfg.rm && rt.name != p.cfg.tl {
                "unregistered-name-removed"
            } else if removed && p.cfg.targets.is_empty() {
                "removed-with-empty-target-set"
            } else if removed {
                "non-member-removed"
            } else if rt.attrs.iter().any(|a| a.1.as_deref().map(|v| v.contains("skip")).unwrap_or(false)) {
                "quoted-skip-has-effect"
            } else {
                "member-not-removed"
            };
            Some((
                class.into(),
                format!(
                    "tag {:?}, targets {:?}, names ({:?},{:?}): removed={removed}, reference ready={want}",
                    p.tag, p.cfg.targets, p.cfg.tl, p.cfg.rm
                ),
            ))
        }
    }
}

pub fn run(r: &Report) {
    r.set_rule("probe = (target set, name form, skip layout, attribute order, tag-name configuration, element tag name): all subsets of the name pool {a, ab, A, b, '', vec![], time-limited, +00:00, skip, removal-marker} (quick: first 6 names) x {each pool name quoted, missing, valueless, unquoted} x 7 skip layouts x 2 orders x 4 tag-name configurations x {time name, marker name, unregistered, case variant}; decision observed through clean on a probe document; command-line rows run the binary; non-trivial = distinct probes whose value is a prefix/superstring/case variant of a target without being equal, or that carry `skip` in any form, or whose name has no quoted value");
    let pool: Vec<&str> = match r.tier {
        Tier::Quick => NAME_POOL[..6].to_vec(),
        Tier::Thorough => NAME_POOL.to_vec(),
    };
    let radices = [
        1usize << pool.len(),
        pool.len() + 3,
        SKIP_LAYOUTS.len(),
        2,
        TAGNAME_CFGS.len(),
        4,
        3,
    ];
    let expected: u64 = radices.iter().map(|&x| x as u64).product();
    let counted = explore_product(
        &radices,
        || r.local(),
        |l: &mut Local, dg| {
            let (p, nontrivial) = build(dg, &pool);
            l.eval();
            l.transition(1);
            let key = format!("{:?}|{:?}|{}|{}", p.cfg.targets, p.tag, p.cfg.tl, p.cfg.rm);
            let h = hash64(&[key.as_bytes()]);
            l.state(h);
            if nontrivial {
                l.nontrivial(h);
            }
            l.trace_validated(1);
            match check(&p) {
                None => {
                    l.class(match dg[5] {
                        0 => "time-name-element",
                        1 => "marker-name-element",
                        2 => "unregistered-element",
                        _ => "case-variant-element",
                    });
                    if l.r.samples_len() < 6 && nontrivial && dg[5] == 1 && dg[2] >= 4 && dg[0] > 2 {
                        l.r.sample(json!({"tag": p.tag, "targets": p.cfg.targets}));
                    }
                }
                Some((class, detail)) => {
                    l.class("mismatch");
                    l.violation(Violation {
                        prop: "C06".into(),
                        class,
                        case: json!({"engine": "marker", "src": p.src, "tag": p.tag, "cfg": p.cfg.to_json()}),
                        detail,
                    });
                }
            }
        },
        &|| r.stopped(),
    );
    r.expect_count("marker/skip probe product", expected, counted);
    if !r.stopped() {
        duplicate_names(r);
    }
    if !r.stopped() {
        crate::props::cli::marker_rows(r);
    }
}

/// Several `name` attributes: the first one decides (assumption recorded in the evidence).
fn duplicate_names(r: &Report) {
    r.assume("an element with several `name` attributes is decided by the first one");
    let mut l = r.local();
    let rows: &[(&str, bool)] = &[
        ("name=\"a\" name=\"b\"", true),
        ("name=\"b\" name=\"a\"", false),
        ("name name=\"a\"", false),
        ("name=b name=\"a\"", false),
        ("name=\"a\" name", true),
        ("name=\"\" name=\"a\"", false),
    ];
    for (attrs, want) in rows {
        for targets in [vec!["a".to_string()], vec!["a".to_string(), "c".to_string()]] {
            let cfg = Cfg {
                targets,
                ..Cfg::standard()
            };
            let tag = format!("<rm {attrs}>");
            let p = Probe {
                src: format!("k1();\n{tag}\nPROBE();\n</rm>\nk2();\n"),
                tag,
                cfg,
            };
            l.eval();
            l.transition(1);
            let h = hash64(&[p.src.as_bytes(), format!("{:?}", p.cfg.targets).as_bytes()]);
            l.state(h);
            l.nontrivial(h);
            l.trace_validated(1);
            l.class("duplicate-name");
            // the reference tag reader + rule (first `name` attribute) give `want`
            debug_assert_eq!(
                status(&ref_tag(&p.tag[1..p.tag.len() - 1]).unwrap(), &RCfg::from(&p.cfg)) == Status::Ready,
                *want
            );
            let got = match run_clean(&p.src, "<", ">", &p.cfg) {
                Ok(o) => !o.contains("PROBE"),
                Err(e) => {
                    l.violation(Violation {
                        prop: "C06".into(),
                        class: format!("panic@{}", panic_site_key(&e.site)),
                        case: json!({"engine": "marker-dup", "src": p.src, "tag": p.tag, "cfg": p.cfg.to_json()}),
                        detail: format!("clean panicked: {}", e.site),
                    });
                    continue;
                }
            };
            if got != *want {
                l.violation(Violation {
                    prop: "C06".into(),
                    class: "duplicate-name-not-first".into(),
                    case: json!({"engine": "marker-dup", "src": p.src, "tag": p.tag, "cfg": p.cfg.to_json()}),
                    detail: format!("tag {:?} targets {:?}: removed={got}, expected {want} (the first `name` attribute decides)", p.tag, p.cfg.targets),
                });
            }
        }
    }
}

pub fn replay(case: &Value) -> Vec<Violation> {
    if case["engine"] == "marker-dup" {
        let (Some(src), Some(tag), Some(cfg)) = (
            case["src"].as_str(),
            case["tag"].as_str(),
            Cfg::from_json(&case["cfg"]),
        ) else {
            return vec![];
        };
        let want = status(&ref_tag(&tag[1..tag.len() - 1]).unwrap(), &RCfg::from(&cfg)) == Status::Ready;
        return match run_clean(src, "<", ">", &cfg) {
            Ok(o) if (!o.contains("PROBE")) != want => vec![Violation {
                prop: "C06".into(),
                class: "duplicate-name-not-first".into(),
                case: case.clone(),
                detail: format!("tag {tag:?}: removed={}, expected {want} (the first `name` attribute decides)", !want),
            }],
            Ok(_) => vec![],
            Err(e) => vec![Violation {
                prop: "C06".into(),
                class: format!("panic@{}", panic_site_key(&e.site)),
                case: case.clone(),
                detail: format!("clean panicked: {}", e.site),
            }],
        };
    }
    if case["engine"] == "cli" {
        return crate::props::cli::replay("C06", case);
    }
    let (Some(src), Some(tag), Some(cfg)) = (
        case["src"].as_str(),
        case["tag"].as_str(),
        Cfg::from_json(&case["cfg"]),
    ) else {
        return vec![];
    };
    check(&Probe {
        src: src.into(),
        tag: tag.into(),
        cfg,
    })
    .map(|(class, detail)| Violation {
        prop: "C06".into(),
        class,
        case: case.clone(),
        detail,
    })
    .into_iter()
    .collect()
}
