pub mod cli;
pub mod doc;
pub mod layout;
pub mod marker;
pub mod pair;
pub mod tag;
pub mod time;
pub mod tok;
