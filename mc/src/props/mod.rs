pub mod tok;
