pub mod doc;
pub mod pair;
pub mod tag;
pub mod tok;
