//! C15 (list == what clean deletes, pure), C16 (item rendering, JSON), C17 (list_all = Ready +
//! outstanding Pending, once each, in order).

use crate::align::nonws;
use crate::explore::{count_choices, explore_choices, explore_seqs, seq_count, Chooser};
use crate::gen::{self, AstParams, Delims, Item, Kind, Names, RenderOpts};
use crate::harness::{guarded, hash64, panic_site_key, run_clean, run_list, Cfg, DocCase, ListMode};
use crate::refmodel::{analyse, last_char_start, line_of, ref_render_item, strip_ansi, RCfg, Region};
use crate::report::{Local, Report, Tier, Violation};
use serde_json::{json, Value};

#[derive(Debug, Clone, PartialEq)]
pub struct JItem {
    pub first: usize,
    pub last: usize,
    pub block: String,
    pub ready: bool,
}

pub fn parse_json(s: &str) -> Result<Vec<JItem>, String> {
    let v: Value = serde_json::from_str(s).map_err(|e| format!("JSON does not parse: {e}"))?;
    let arr = v.as_array().ok_or("JSON is not an array")?;
    let mut out = vec![];
    for it in arr {
        let o = it.as_object().ok_or("item is not an object")?;
        let mut keys: Vec<&str> = o.keys().map(|k| k.as_str()).collect();
        keys.sort();
        if keys != ["annotated_code_block", "current_status", "line_range"] {
            return Err(format!("unexpected keys {keys:?}"));
        }
        let lr = o["line_range"].as_array().ok_or("line_range is not an array")?;
        if lr.len() != 2 {
            return Err("line_range does not have two entries".into());
        }
        let first = lr[0].as_u64().ok_or("line_range[0] not an integer")? as usize;
        let last = lr[1].as_u64().ok_or("line_range[1] not an integer")? as usize;
        let ready = match o["current_status"].as_str() {
            Some("Ready") => true,
            Some("Pending") => false,
            x => return Err(format!("current_status {x:?}")),
        };
        out.push(JItem {
            first,
            last,
            block: o["annotated_code_block"]
                .as_str()
                .ok_or("annotated_code_block not a string")?
                .to_string(),
            ready,
        });
    }
    Ok(out)
}

#[derive(Debug, Clone, PartialEq)]
pub struct PItem {
    pub idx: usize,
    pub ready: bool,
    /// the item text with colour codes
    pub text: String,
}

pub fn parse_pretty(s: &str) -> Result<Vec<PItem>, String> {
    if !s.ends_with('\n') {
        return Err("pretty output does not end with a line break".into());
    }
    let body = &s[..s.len() - 1];
    if body.is_empty() {
        return Ok(vec![]);
    }
    // an item header is a line of the form  <dashes> [ <n> ] <Ready|Pending> <dashes>
    let is_header = |l: &str| -> Option<(usize, bool)> {
        let t = l.trim();
        if !(t.starts_with('-') && t.ends_with('-')) {
            return None;
        }
        let a = t.find('[')?;
        let b = t.find(']')?;
        let idx: usize = t.get(a + 1..b)?.trim().parse().ok()?;
        let word = t[b + 1..].trim_matches(|c: char| c == '-' || c == ' ');
        match word {
            "Ready" => Some((idx, true)),
            "Pending" => Some((idx, false)),
            _ => None,
        }
    };
    let lines: Vec<&str> = body.split('\n').collect();
    // layout: "" , header, item lines..., header, item lines...   (the output starts with a line
    // break; every further header directly follows the end marker line of the previous item)
    if lines.first() != Some(&"") {
        return Err(format!("pretty output does not start with a line break: {:?}", lines.first()));
    }
    let mut out: Vec<PItem> = vec![];
    for (i, l) in lines.iter().enumerate().skip(1) {
        if let Some((idx, ready)) = is_header(l) {
            out.push(PItem {
                idx,
                ready,
                text: String::new(),
            });
            continue;
        }
        let Some(it) = out.last_mut() else {
            return Err(format!("pretty output: expected an item header at line {}: {:?}", i + 1, l));
        };
        if !it.text.is_empty() {
            it.text.push('\n');
        }
        it.text.push_str(l);
    }
    Ok(out)
}

/// text between a colour-on sequence (any SGR other than reset) and the reset sequence inside
/// the code lines, joined by '\n'
pub fn highlighted(item_text: &str) -> Option<String> {
    let lines: Vec<&str> = item_text.split('\n').collect();
    if lines.len() < 3 {
        return None;
    }
    let mut parts: Vec<String> = vec![];
    for l in &lines[1..lines.len() - 1] {
        let mut found = false;
        let mut on = false;
        let mut cur = String::new();
        let mut it = l.chars().peekable();
        while let Some(c) = it.next() {
            if c == '\x1b' && it.peek() == Some(&'[') {
                it.next();
                let mut params = String::new();
                for d in it.by_ref() {
                    if d == 'm' {
                        break;
                    }
                    params.push(d);
                }
                let reset = params.is_empty() || params == "0";
                if on && reset {
                    parts.push(std::mem::take(&mut cur));
                    found = true;
                    on = false;
                } else if !on && !reset {
                    on = true;
                    cur.clear();
                }
            } else if on {
                cur.push(c);
            }
        }
        if on || !found {
            // unterminated colour, or a line of the region without any highlighted piece
            return None;
        }
    }
    Some(parts.join("\n"))
}

/// width of the line-number column: position behind the '|' of the first numbered line
pub fn number_column_width(block: &str) -> Option<usize> {
    let l = block.split('\n').nth(1)?;
    let bar = l.find('|')?;
    if l[..bar].trim().parse::<usize>().is_err() {
        return None;
    }
    Some(bar + 1)
}

/// byte offset within `line` of display column `col` (tab = 4)
fn byte_of_col(line: &str, col: usize) -> Option<usize> {
    let mut c = 0;
    for (i, ch) in line.char_indices() {
        if c == col {
            return Some(i);
        }
        c += if ch == '\t' { 4 } else { 1 };
        if c > col {
            return None;
        }
    }
    if c == col {
        Some(line.len())
    } else {
        None
    }
}

/// Locate the byte range an item describes from its line range and marker columns alone.
pub fn locate(src: &str, it: &JItem) -> Option<(usize, usize)> {
    let blines: Vec<&str> = it.block.split('\n').collect();
    let w = number_column_width(&it.block)?;
    let sc = blines.first()?.find("_start")?.checked_sub(w)?;
    let ec = blines.last()?.find("‾end")?.checked_sub(w)?;
    let line_starts: Vec<usize> = std::iter::once(0)
        .chain(src.match_indices('\n').map(|m| m.0 + 1))
        .collect();
    let ls = *line_starts.get(it.first.checked_sub(1)?)?;
    let le = *line_starts.get(it.last.checked_sub(1)?)?;
    let first_line = src[ls..].split('\n').next()?;
    let last_line = src[le..].split('\n').next()?;
    let s = ls + byte_of_col(first_line, sc)?;
    let e_start = le + byte_of_col(last_line, ec)?;
    let e = e_start + src[e_start..].chars().next()?.len_utf8();
    if s < e {
        Some((s, e))
    } else {
        None
    }
}

fn lst(case: &DocCase, mode: ListMode, json: bool) -> Result<String, (String, String)> {
    match run_list(&case.src, &case.ds, &case.de, &case.cfg, mode, json) {
        Err(p) => Err((
            format!("panic@{}", panic_site_key(&p.site)),
            format!("list panicked: {}", p.site),
        )),
        Ok(Err(e)) => Err(("list-error".into(), e)),
        Ok(Ok(s)) => Ok(s),
    }
}

pub struct Res {
    pub viol: Option<(String, String)>,
    pub class: &'static str,
    pub nontrivial: bool,
}

// ------------------------------------------------------------------------------------ C15

pub fn check15(case: &DocCase) -> Res {
    let an = analyse(&case.src, &case.ds, &case.de, &RCfg::from(&case.cfg));
    let regions = an.regions(false);
    let class = match regions.len() {
        0 => "no-ready-region",
        1 => "one-region",
        _ => "several-regions",
    };
    let fail = |c: &str, d: String| Res {
        viol: Some((c.to_string(), d)),
        class,
        nontrivial: !regions.is_empty(),
    };
    let js = match lst(case, ListMode::List, true) {
        Ok(s) => s,
        Err((c, d)) => return fail(&c, d),
    };
    let pr = match lst(case, ListMode::List, false) {
        Ok(s) => s,
        Err((c, d)) => return fail(&c, d),
    };
    let items = match parse_json(&js) {
        Ok(i) => i,
        Err(e) => return fail("json-shape", e),
    };
    let pitems = match parse_pretty(&pr) {
        Ok(i) => i,
        Err(e) => return fail("pretty-shape", e),
    };
    // (A) one-to-one with the reference regions
    if items.len() != regions.len() || pitems.len() != regions.len() {
        return fail(
            if items.len() < regions.len() { "region-missing" } else { "region-spurious" },
            format!(
                "reference regions {:?}; JSON lists {} items (lines {:?}), pretty {}",
                regions.iter().map(|r| (line_of(&case.src, r.s), line_of(&case.src, last_char_start(&case.src, r)))).collect::<Vec<_>>(),
                items.len(),
                items.iter().map(|i| (i.first, i.last)).collect::<Vec<_>>(),
                pitems.len()
            ),
        );
    }
    for (k, r) in regions.iter().enumerate() {
        let (f, l) = (line_of(&case.src, r.s), line_of(&case.src, last_char_start(&case.src, r)));
        if (items[k].first, items[k].last) != (f, l) {
            return fail(
                "line-range-differs",
                format!("region {k}: reference lines ({f},{l}), list says ({},{})", items[k].first, items[k].last),
            );
        }
        if !items[k].ready || !pitems[k].ready {
            return fail("status-differs", format!("region {k} is not reported Ready"));
        }
        let want = case.src[r.s..r.e].replace('\t', "    ");
        match highlighted(&pitems[k].text) {
            Some(h) if h == want => {}
            h => {
                return fail(
                    "highlight-differs",
                    format!("region {k}: region text {want:?}, highlighted {h:?}"),
                )
            }
        }
    }
    // (B) direct link to clean, without the model
    let cleaned = match run_clean(&case.src, &case.ds, &case.de, &case.cfg) {
        Ok(o) => o,
        Err(_) => {
            return Res {
                viol: None,
                class: "skipped-panic(C01)",
                nontrivial: false,
            }
        }
    };
    let mut cut = case.src.clone();
    let mut spans = vec![];
    for it in &items {
        match locate(&case.src, it) {
            Some(sp) => spans.push(sp),
            None => {
                return fail(
                    "item-not-locatable",
                    format!("cannot locate lines ({},{}) / marker columns in the source: {:?}", it.first, it.last, it.block),
                )
            }
        }
    }
    for &(s, e) in spans.iter().rev() {
        if e > cut.len() || !cut.is_char_boundary(s) || !cut.is_char_boundary(e) {
            return fail("item-not-locatable", format!("span ({s},{e}) not valid"));
        }
        cut.replace_range(s..e, "");
    }
    if nonws(cut.as_bytes()) != nonws(cleaned.as_bytes()) {
        return fail(
            "listed-regions-differ-from-clean",
            format!("source minus listed regions {cut:?} vs clean {cleaned:?} (non-whitespace text differs)"),
        );
    }
    // (C) purity
    let again = lst(case, ListMode::List, true);
    let again_p = lst(case, ListMode::List, false);
    if again.as_deref().ok() != Some(js.as_str()) || again_p.as_deref().ok() != Some(pr.as_str()) {
        return fail("list-not-pure", "second call returns a different string".into());
    }
    if let Some(d) = purity_same_rc(case, &js) {
        return fail("list-not-pure", d);
    }
    Res {
        viol: None,
        class,
        nontrivial: !regions.is_empty(),
    }
}

/// list, clean, list on the *same* Rc<String>; the source must be unchanged and both lists equal
fn purity_same_rc(case: &DocCase, expect_json: &str) -> Option<String> {
    use chiritori::chiritori::{clean, list, ListFormat};
    use std::rc::Rc;
    let rc = Rc::new(case.src.clone());
    let d = (case.ds.clone(), case.de.clone());
    let r = guarded(|| {
        let a = list(rc.clone(), d.clone(), case.cfg.to_impl(), ListFormat::JSON).ok();
        let _ = clean(rc.clone(), d.clone(), case.cfg.to_impl());
        let b = list(rc.clone(), d.clone(), case.cfg.to_impl(), ListFormat::JSON).ok();
        (a, b, (*rc).clone())
    });
    match r {
        Err(p) => Some(format!("panicked: {}", p.site)),
        Ok((a, b, s)) => {
            if s != case.src {
                Some("source changed".into())
            } else if a.as_deref() != Some(expect_json) || b.as_deref() != Some(expect_json) {
                Some("list before/after clean on the same Rc differs".into())
            } else {
                None
            }
        }
    }
}

const STRESS_DOCS: usize = 55987; // sum of 6^i for i in 0..=6

/// `list` and `clean` of three probe documents on a fresh thread, then a fixed history of 55 987
/// other documents (every tag sequence of up to 6 atoms over {text, open a, close a, open ab,
/// close ab, close z}: crossing, stray and same-name-nested tags) through `clean` and `list` on
/// the same thread, then the probes again: a pure function gives the same results.
pub fn purity_under_load() -> Option<(String, String)> {
    let cfg = Cfg::standard();
    let probes = [
        "a();\n<tl to=\"2000-01-01 00:00:00\">\n  <tl to=\"2999-01-01 00:00:00\">\n  b();\n  </tl>\n</tl>\nc();\n",
        "<tl to=\"2999-01-01 00:00:00\">\n<rm name=\"a\">\nx();\n</rm>\n<tl to=\"2000-01-01 00:00:00\" unwrap-block>\nif (y) {\n  z();\n}\n</tl>\n</tl>\n",
        "p(); <rm name=\"a\">q</rm> r(); <tl to=\"2000-01-01 00:00:00\">s</tl>\n",
    ];
    let observe = |cfg: &Cfg| -> Vec<String> {
        let mut v = vec![];
        for p in probes {
            v.push(format!("{:?}", run_clean(p, "<", ">", cfg)));
            v.push(format!("{:?}", run_list(p, "<", ">", cfg, ListMode::List, true)));
            v.push(format!("{:?}", run_list(p, "<", ">", cfg, ListMode::ListAll, true)));
        }
        v
    };
    let res = std::thread::scope(|sc| {
        sc.spawn(|| {
            let before = observe(&cfg);
            let atoms = ["t", "<a>", "</a>", "<ab>", "</ab>", "</z>"];
            let mut idx: Vec<usize> = vec![];
            let mut n = 0usize;
            // all sequences of length 0..=6 in lexicographic order
            loop {
                let doc: String = idx.iter().map(|&i| atoms[i]).collect();
                let _ = run_clean(&doc, "<", ">", &cfg);
                let _ = run_list(&doc, "<", ">", &cfg, ListMode::ListAll, true);
                n += 1;
                if idx.len() < 6 {
                    idx.push(0);
                    continue;
                }
                loop {
                    match idx.pop() {
                        None => break,
                        Some(i) if i + 1 < atoms.len() => {
                            idx.push(i + 1);
                            break;
                        }
                        Some(_) => {}
                    }
                }
                if idx.is_empty() {
                    break;
                }
            }
            assert_eq!(n, STRESS_DOCS);
            let after = observe(&cfg);
            (before, after)
        })
        .join()
    });
    let Ok((before, after)) = res else {
        return Some(("panic-under-load".into(), "the stress history panicked".into()));
    };
    if before != after {
        let k = before.iter().zip(&after).position(|(a, b)| a != b).unwrap_or(0);
        return Some((
            "result-depends-on-call-history".into(),
            format!(
                "probe #{} ({}): before the history {:?}, after it {:?}",
                k / 3,
                ["clean", "list", "list_all"][k % 3],
                before[k],
                after[k]
            ),
        ));
    }
    None
}

/// CRLF sources: '\r' is an ordinary character at the end of a line; only the item count,
/// line numbers and status are compared (the pretty form drops the '\r', which the statement
/// does not forbid).
pub fn check15_lines_only(case: &DocCase) -> Res {
    let an = analyse(&case.src, &case.ds, &case.de, &RCfg::from(&case.cfg));
    let regions = an.regions(false);
    let class = "crlf-line-ranges";
    let nontrivial = !regions.is_empty();
    let fail = |c: &str, d: String| Res {
        viol: Some((c.to_string(), d)),
        class,
        nontrivial,
    };
    let js = match lst(case, ListMode::List, true) {
        Ok(s) => s,
        Err((c, d)) => return fail(&c, d),
    };
    let items = match parse_json(&js) {
        Ok(i) => i,
        Err(e) => return fail("json-shape", e),
    };
    let want: Vec<(usize, usize)> = regions
        .iter()
        .map(|r| (line_of(&case.src, r.s), line_of(&case.src, last_char_start(&case.src, r))))
        .collect();
    let got: Vec<(usize, usize)> = items.iter().map(|i| (i.first, i.last)).collect();
    if want != got {
        return fail(
            "line-range-differs",
            format!("CRLF source: reference lines {want:?}, list says {got:?}"),
        );
    }
    // every numbered line of every item is that source line (without its '\r')
    let src_lines: Vec<&str> = case.src.split('\n').collect();
    for (k, j) in items.iter().enumerate() {
        let bl: Vec<&str> = j.block.split('\n').collect();
        if bl.len() < 3 || bl.len() - 2 != j.last - j.first + 1 {
            return fail("item-line-count", format!("item {k}: {:?}", j.block));
        }
        let w = number_column_width(&j.block).unwrap_or(9);
        for (i, l) in bl[1..bl.len() - 1].iter().enumerate() {
            let n = j.first + i;
            let text = n
                .checked_sub(1)
                .and_then(|i| src_lines.get(i))
                .copied()
                .unwrap_or("<no such line>")
                .trim_end_matches('\r')
                .replace('\t', "    ");
            let want = format!("{:>width$} |{text}", n, width = w.saturating_sub(2));
            if l.trim_end_matches('\r') != want {
                return fail(
                    "numbered-line-is-not-that-source-line",
                    format!("item {k}: expected {want:?}, got {l:?}"),
                );
            }
        }
    }
    Res {
        viol: None,
        class,
        nontrivial,
    }
}

// ------------------------------------------------------------------------------------ C16

pub fn check16(case: &DocCase) -> Res {
    let an = analyse(&case.src, &case.ds, &case.de, &RCfg::from(&case.cfg));
    let mut viol = None;
    let mut any = false;
    let mut tabbed = false;
    for (mode, all) in [(ListMode::List, false), (ListMode::ListAll, true)] {
        let js = match lst(case, mode, true) {
            Ok(s) => s,
            Err(e) => {
                viol = Some(e);
                break;
            }
        };
        let pr = match lst(case, mode, false) {
            Ok(s) => s,
            Err(e) => {
                viol = Some(e);
                break;
            }
        };
        let items = match parse_json(&js) {
            Ok(i) => i,
            Err(e) => {
                viol = Some(("json-shape".into(), e));
                break;
            }
        };
        let pitems = match parse_pretty(&pr) {
            Ok(i) => i,
            Err(e) => {
                viol = Some(("pretty-shape".into(), e));
                break;
            }
        };
        if items.len() != pitems.len() {
            viol = Some((
                "json-pretty-count".into(),
                format!("JSON has {} items, pretty {}", items.len(), pitems.len()),
            ));
            break;
        }
        for (k, (j, p)) in items.iter().zip(&pitems).enumerate() {
            any = true;
            if p.idx != k + 1 {
                viol = Some(("item-numbering".into(), format!("item {k} is numbered {}", p.idx)));
                break;
            }
            if p.ready != j.ready {
                viol = Some(("status-word".into(), format!("item {k}: header and JSON status differ")));
                break;
            }
            if strip_ansi(&p.text) != j.block {
                viol = Some((
                    "json-block-differs-from-pretty".into(),
                    format!("item {k}: pretty (colours stripped) {:?} vs JSON {:?}", strip_ansi(&p.text), j.block),
                ));
                break;
            }
        }
        if viol.is_some() {
            break;
        }
        // model-free: every item shows exactly the source lines first..last, each with its own
        // 1-based number, tabs as four spaces
        let src_lines: Vec<&str> = case.src.split('\n').collect();
        for (k, j) in items.iter().enumerate() {
            let bl: Vec<&str> = j.block.split('\n').collect();
            if bl.len() < 3 || j.last < j.first || bl.len() - 2 != j.last - j.first + 1 {
                viol = Some((
                    "item-line-count".into(),
                    format!("item {k}: line_range ({},{}) but {} numbered lines: {:?}", j.first, j.last, bl.len().saturating_sub(2), j.block),
                ));
                break;
            }
            for (i, l) in bl[1..bl.len() - 1].iter().enumerate() {
                let n = j.first + i;
                let w = number_column_width(&j.block).unwrap_or(9);
                let want = format!("{:>width$} |{text}", n, width = w.saturating_sub(2), text = n.checked_sub(1).and_then(|i| src_lines.get(i)).copied().unwrap_or("<no such line>").replace('\t', "    "));
                if *l != want {
                    viol = Some((
                        "numbered-line-is-not-that-source-line".into(),
                        format!("item {k}: expected {want:?}, got {l:?}"),
                    ));
                    break;
                }
            }
            if viol.is_some() {
                break;
            }
        }
        if viol.is_some() {
            break;
        }
        // rendering against the description, region by region (regions as the *subject* reports
        // them: C15/C17 decide whether they are the right regions; here only how they render)
        let regions = an.regions(all);
        if regions.len() == items.len() {
            for (k, (r, j)) in regions.iter().zip(&items).enumerate() {
                // "for ASCII text to the left of the marker"
                let ls = case.src[..r.s].rfind('\n').map(|p| p + 1).unwrap_or(0);
                let lc = last_char_start(&case.src, r);
                let le = case.src[..lc].rfind('\n').map(|p| p + 1).unwrap_or(0);
                if !case.src[ls..r.s].is_ascii() || !case.src[le..lc].is_ascii() {
                    continue;
                }
                if case.src[ls..r.e].contains('\t') {
                    tabbed = true;
                }
                let w = number_column_width(&j.block).unwrap_or(9);
                let (f, l, want) = ref_render_item(&case.src, r, w);
                if (j.first, j.last) != (f, l) {
                    continue; // C15 / C17's business
                }
                if j.block != want {
                    let wl: Vec<&str> = want.split('\n').collect();
                    let gl: Vec<&str> = j.block.split('\n').collect();
                    let class = if wl.len() != gl.len() {
                        "item-line-count"
                    } else if wl[0] != gl[0] {
                        "start-marker-column"
                    } else if wl[wl.len() - 1] != gl[gl.len() - 1] {
                        "end-marker-column"
                    } else {
                        "numbered-lines-differ"
                    };
                    viol = Some((
                        class.into(),
                        format!("item {k} (mode all={all}): expected {want:?}, got {:?}", j.block),
                    ));
                    break;
                }
            }
        }
        if viol.is_some() {
            break;
        }
    }
    Res {
        viol,
        class: if !any {
            "no-item"
        } else if tabbed {
            "items-with-tabs"
        } else {
            "items"
        },
        nontrivial: any,
    }
}

// ------------------------------------------------------------------------------------ C17

pub fn check17(case: &DocCase) -> Res {
    check17_mode(case, true)
}

/// `ordered` = false: compare the listed items as a set. Used for documents outside the C15 space
/// (tags on unwrap wrapper lines), where the statement's membership rule applies but its
/// quantifier does not fix an order.
pub fn check17_mode(case: &DocCase, ordered: bool) -> Res {
    let an = analyse(&case.src, &case.ds, &case.de, &RCfg::from(&case.cfg));
    let want: Vec<Region> = an.regions(true);
    let n_pending = want.iter().filter(|r| !r.ready).count();
    let n_ready = want.len() - n_pending;
    let class = match (n_ready, n_pending) {
        (0, 0) => "nothing-listed",
        (_, 0) => "ready-only",
        (0, _) => "pending-only",
        _ => "ready+pending",
    };
    let nontrivial = n_pending >= 2 && n_ready >= 1;
    let fail = |c: &str, d: String| Res {
        viol: Some((c.to_string(), d)),
        class,
        nontrivial,
    };
    let js = match lst(case, ListMode::ListAll, true) {
        Ok(s) => s,
        Err((c, d)) => return fail(&c, d),
    };
    let items = match parse_json(&js) {
        Ok(i) => i,
        Err(e) => return fail("json-shape", e),
    };
    let got: Vec<(usize, usize, bool)> = items.iter().map(|i| (i.first, i.last, i.ready)).collect();
    let wantv: Vec<(usize, usize, bool)> = want
        .iter()
        .map(|r| (line_of(&case.src, r.s), line_of(&case.src, last_char_start(&case.src, r)), r.ready))
        .collect();
    let same = if ordered {
        got == wantv
    } else {
        let mut gs = got.clone();
        let mut ws = wantv.clone();
        gs.sort();
        ws.sort();
        gs == ws
    };
    if !same {
        let mut gs = got.clone();
        let mut ws = wantv.clone();
        gs.sort();
        ws.sort();
        let class_v = if gs == ws {
            "order-differs"
        } else if got.iter().filter(|g| !g.2).count() > n_pending {
            "pending-listed-that-should-not-be"
        } else if got.iter().filter(|g| !g.2).count() < n_pending {
            "pending-missing"
        } else if got.iter().filter(|g| g.2).count() != n_ready {
            "ready-set-differs"
        } else {
            "items-differ"
        };
        return fail(
            class_v,
            format!("expected (first,last,ready) {wantv:?}, list_all gives {got:?}"),
        );
    }
    // the Ready items of list_all are identical to the plain list
    let plain = match lst(case, ListMode::List, true).map(|s| parse_json(&s)) {
        Ok(Ok(p)) => p,
        _ => return fail("list-error", "plain list failed".into()),
    };
    let ready_all: Vec<&JItem> = items.iter().filter(|i| i.ready).collect();
    if ready_all.len() != plain.len() || ready_all.iter().zip(&plain).any(|(a, b)| **a != *b) {
        return fail("ready-items-differ-from-list", "Ready items of list_all differ from list".into());
    }
    Res {
        viol: None,
        class,
        nontrivial,
    }
}

// ------------------------------------------------------------------------------------ spaces

fn ast_params(prop: &str, tier: Tier) -> AstParams {
    let base = AstParams {
        max_lines: 6,
        max_depth: 2,
        block_kinds: vec![Kind::Expired, Kind::Future, Kind::SkipExpired],
        inline_kinds: vec![Kind::Expired, Kind::Future],
        unwrap: true,
        ws_lines: false,
        mb: false,
        extra_indent: false,
        blank: true,
        rich: false,
        short_unwrap: false,
        shared_lines: true,
        shared_pairs: vec![],
    };
    match (prop, tier) {
        ("C17", Tier::Quick) => AstParams {
            max_lines: 7,
            max_depth: 2,
            block_kinds: vec![Kind::Future, Kind::Expired, Kind::Untargeted, Kind::SkipFuture, Kind::SkipExpired],
            inline_kinds: vec![Kind::Future, Kind::Expired],
            blank: false,
            short_unwrap: true,
            shared_lines: false,
            shared_pairs: vec![],
            ..base
        },
        ("C17", Tier::Thorough) => AstParams {
            max_lines: 8,
            max_depth: 3,
            block_kinds: vec![Kind::Future, Kind::Expired, Kind::Untargeted, Kind::SkipFuture, Kind::SkipExpired, Kind::Unregistered],
            inline_kinds: vec![Kind::Future, Kind::Expired],
            blank: false,
            short_unwrap: true,
            shared_lines: false,
            shared_pairs: vec![],
            ..base
        },
        (_, Tier::Quick) => AstParams {
            max_lines: 5,
            block_kinds: vec![Kind::Expired, Kind::Future],
            shared_pairs: vec![(Kind::Expired, Kind::Expired), (Kind::Future, Kind::Expired)],
            ..base
        },
        (_, Tier::Thorough) => AstParams {
            max_lines: 6,
            max_depth: 3,
            block_kinds: vec![Kind::Expired, Kind::Future],
            shared_pairs: vec![(Kind::Expired, Kind::Expired), (Kind::Future, Kind::Expired)],
            ..base
        },
    }
}

fn doc_check(prop: &str, case: &DocCase) -> Res {
    match prop {
        "C15" if case.src.contains('\r') => check15_lines_only(case),
        "C15" => check15(case),
        "C16" => check16(case),
        _ => check17(case),
    }
}

fn eval(l: &mut Local, prop: &str, case: &DocCase, sample_ok: bool) {
    eval_after(l, prop, case, sample_ok, &[]);
}

/// `prior`: configurations under which the same source was listed on this thread immediately
/// before (recorded in the replay so that a history-dependent defect reproduces)
fn eval_after(l: &mut Local, prop: &str, case: &DocCase, sample_ok: bool, prior: &[&Cfg]) {
    l.eval();
    let h = hash64(&[case.src.as_bytes(), case.ds.as_bytes(), case.cfg.now.as_bytes(), &[case.cfg.targets.len() as u8]]);
    l.state(h);
    let res = doc_check(prop, case);
    l.class(res.class);
    l.trace_validated(1);
    if res.nontrivial {
        l.nontrivial(h);
    }
    if let Some((class, detail)) = res.viol {
        let mut cj = case.to_json();
        cj["engine"] = json!("listing");
        cj["prior"] = json!(prior.iter().map(|c| c.to_json()).collect::<Vec<_>>());
        l.violation(Violation {
            prop: prop.into(),
            class,
            case: cj,
            detail,
        });
    } else if sample_ok && res.nontrivial && l.r.samples_len() < 6 {
        l.r.sample(json!({"src": case.src}));
    }
}

pub fn run(r: &Report, prop: &str) {
    let names = Names::short();
    let cfg = Cfg::standard();
    let p = ast_params(prop, r.tier);
    r.set_rule(match prop {
        "C15" => "all G-ast trees up to the line budget (tags alone on lines or inline, code wrapper lines, first byte not a line break), all readiness assignments from the kind pool; list JSON+pretty vs reference regions (count, line numbers, highlighted text), direct list<->clean link by cutting the listed regions out of the source, purity; non-trivial = distinct documents with >= 1 Ready region",
        "C16" => "C15's trees (incl. documents whose first byte is a line break) plus the column family: every prefix of <= K atoms over {' ', tab, 'a'} before single- and multi-line regions, with 0/1/8/98 lines above (line-number width transitions) and multi-byte text only right of the markers; JSON shape, item numbering, pretty-without-colours == JSON block, and the block text vs the description (marker columns, numbered lines, tabs as 4 spaces); non-trivial = distinct documents with >= 1 item",
        _ => "all G-ast trees of the C17 projection (pending/ready/skip/unregistered/un-unwrappable parents and children, both strategies, up to 4 pending siblings per parent within the line budget); list_all JSON (first,last,status) sequence vs reference regions (Ready + outstanding Pending, nested ones dropped, source order), and Ready items identical to list; non-trivial = distinct documents with >= 2 Pending regions and >= 1 Ready region",
    });
    r.assume("reference regions: one per default-strategy element, two per unwrapped element, nested regions dropped (refmodel::regions), validated against ground truth by construction in C02's model validation");
    let d = &gen::POOL[0];
    let cfg_none = Cfg {
        now: "1990-01-01T00:00:00+00:00".into(),
        targets: vec![],
        ..Cfg::standard()
    };
    let cfg_all = Cfg {
        now: "3005-01-01T00:00:00+00:00".into(),
        targets: vec!["a".into(), "b".into()],
        ..Cfg::standard()
    };
    let single = count_choices(|ch| {
        gen::gen_doc(ch, &p);
    });
    let counted = explore_choices(
        |ch: &mut Chooser| gen::gen_doc(ch, &p),
        3,
        || r.local(),
        |l: &mut Local, items: Vec<Item>, trace| {
            l.transition(trace.len() as u64);
            let starts_blank = matches!(items.first(), Some(Item::Blank));
            if prop == "C15" && starts_blank {
                return;
            }
            // C15's model-free link locates regions by marker columns, which are only defined for
            // ASCII text left of the marker: ASCII spellings there; C16 guards per region
            let pairs: &[usize] = match (r.tier, prop) {
                (Tier::Thorough, "C15") => &[0, 2],
                (Tier::Thorough, "C16") => &[0, 6],
                _ => &[0],
            };
            for &pi in pairs {
                let d = &gen::POOL[pi];
                let rd = gen::render(
                    &items,
                    &RenderOpts {
                        d,
                        names: &names,
                        unit: if pi == 0 { "  " } else { "\t" },
                        tag_ids: false,
                        final_newline: true,
                        plain: false,
                    },
                );
                let case = DocCase {
                    src: rd.src,
                    ds: d.ds.into(),
                    de: d.de.into(),
                    cfg: cfg.clone(),
                };
                eval(l, prop, &case, items.len() >= 2);
                if prop == "C15" {
                    // the same document with CRLF line ends (line numbers must not drift)
                    let crlf = DocCase {
                        src: case.src.replace('\n', "\r\n"),
                        ..case.clone()
                    };
                    eval(l, prop, &crlf, false);
                    // a long file (> 64 lines) ending in the document without a final line break:
                    // regions on the very last line of a long file
                    let long = DocCase {
                        src: format!(
                            "{}{}",
                            (0..70).map(|i| format!("f{i}();\n")).collect::<String>(),
                            case.src.trim_end_matches('\n')
                        ),
                        ..case.clone()
                    };
                    eval(l, prop, &long, false);
                }
                if prop == "C15" || prop == "C17" {
                    // the same source again, on the same thread, under configurations in which
                    // nothing / everything is ready: listing is a function of source AND
                    // configuration (no state may survive from the previous call)
                    let mut prior: Vec<&Cfg> = vec![&cfg];
                    for c2 in [&cfg_none, &cfg_all] {
                        let case2 = DocCase {
                            cfg: (*c2).clone(),
                            ..case.clone()
                        };
                        eval_after(l, prop, &case2, false, &prior);
                        prior.push(c2);
                    }
                }
            }
        },
        &|| r.stopped(),
    );
    r.expect_count("G-ast trees (parallel split vs single-threaded count)", single, counted);
    if prop == "C16" && !r.stopped() {
        column_family(r, d, &names, &cfg);
    }
    if prop == "C15" && !r.stopped() {
        // purity under load: the probes' results must not depend on what was processed before
        let mut l = r.local();
        l.eval();
        l.transition(STRESS_DOCS as u64);
        l.trace_validated(1);
        l.class("purity-under-load");
        if let Some((class, detail)) = purity_under_load() {
            l.violation(Violation {
                prop: "C15".into(),
                class,
                case: json!({"engine": "listing-load"}),
                detail,
            });
        }
        r.extra("purity_under_load_stress_documents", json!(STRESS_DOCS));
    }
}

/// C16: regions starting / ending at every column, tab / space / mixed prefixes, line-number
/// width transitions, first byte a line break, multi-byte only right of the markers.
fn column_family(r: &Report, d: &Delims, names: &Names, cfg: &Cfg) {
    let atoms: Vec<String> = vec![" ".into(), "\t".into(), "a".into()];
    let n = if r.tier == Tier::Quick { 4 } else { 6 };
    let o = gen::open_tag(d, names, Kind::Expired, false);
    let c = gen::close_tag(d, &names.tl);
    let po = gen::open_tag(d, names, Kind::Future, false);
    let above: Vec<String> = vec![
        String::new(),
        "\n".into(),
        (0..8).map(|i| format!("f{i}();\n")).collect(),
        (0..98).map(|i| format!("f{i}();\n")).collect(),
        // the number column grows to four (thorough: five) digits inside the item
        (0..998).map(|i| format!("f{i}();\n")).collect(),
        (0..if r.tier == Tier::Quick { 997 } else { 9998 })
            .map(|i| format!("f{i}();\n"))
            .collect(),
    ];
    let counted = explore_seqs(
        &atoms,
        n,
        || r.local(),
        |l: &mut Local, idx, pre| {
            l.transition(if idx.is_empty() { 0 } else { 1 });
            let templates = [
                format!("{pre}{o}x{c} yあ\n"),
                format!("{pre}{o}\n{pre}zあ\n{pre}{c}{pre}\nw\n"),
                format!("{pre}{po}x{c}{pre}q\n{pre}{o}\tk{c}\n"),
                format!("b{pre}{o}\n\n{pre}\n\t{c} あ"),
                // tabs only on an inner line and behind the end marker
                format!("{pre}{o}\n\tinner\n{pre}{c}\ttail\n"),
                // characters a JSON writer has to escape: backslashes, quotes, control
                // characters, DEL, U+2028; on the marker lines and on an inner line
                format!(
                    "{pre}\\ \"q\" {o}/\\d+\\.\\d+/ \"x\\ny\"\n{pre}'C:\\\\tmp'\u{1}\u{8}\u{c}\u{7f}\u{2028}/\n{pre}{c} \\\n"
                ),
            ];
            for t in &templates {
                for a in &above {
                    let case = DocCase {
                        src: format!("{a}{t}"),
                        ds: d.ds.into(),
                        de: d.de.into(),
                        cfg: cfg.clone(),
                    };
                    eval(l, "C16", &case, idx.len() >= 2);
                }
            }
        },
        &|| r.stopped(),
    );
    r.expect_count("C16 column prefixes", seq_count(atoms.len() as u64, n as u32), counted);
}

pub fn replay(prop: &str, case: &Value) -> Vec<Violation> {
    if case["engine"] == "listing-load" {
        return purity_under_load()
            .map(|(class, detail)| Violation {
                prop: prop.into(),
                class,
                case: case.clone(),
                detail,
            })
            .into_iter()
            .collect();
    }
    let Some(c) = DocCase::from_json(case) else {
        return vec![];
    };
    let prior: Vec<Cfg> = case["prior"]
        .as_array()
        .map(|a| a.iter().filter_map(Cfg::from_json).collect())
        .unwrap_or_default();
    // a fresh thread (fresh thread-local state), the recorded history first, then the case
    if case["engine"] == "listing-unordered" {
        return check17_mode(&c, false)
            .viol
            .map(|(class, detail)| Violation {
                prop: prop.into(),
                class,
                case: case.clone(),
                detail,
            })
            .into_iter()
            .collect();
    }
    let prop_s = prop.to_string();
    let res = std::thread::scope(|sc| {
        sc.spawn(|| {
            for pc in &prior {
                let _ = doc_check(&prop_s, &DocCase { cfg: pc.clone(), ..c.clone() });
            }
            doc_check(&prop_s, &c)
        })
        .join()
    });
    let Ok(res) = res else { return vec![] };
    res.viol
        .map(|(class, detail)| Violation {
            prop: prop.into(),
            class,
            case: case.clone(),
            detail,
        })
        .into_iter()
        .collect()
}
