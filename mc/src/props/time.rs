//! C05: expiry decision. Finite product of menus (now-instant x zone spelling of now x offset x
//! offset spelling x delta), every combination, each decision observed twice on the real code:
//! through TimeLimitedEvaluator::is_removal and through clean() on a one-element probe.
//! Reference: integer civil-time arithmetic, no chrono.

use crate::explore::explore_product;
use crate::harness::{guarded, hash64, panic_site_key, run_clean, Cfg};
use crate::refmodel::{parse_offset, parse_rfc3339, parse_to, render_wall};
use crate::report::{Local, Report, Tier, Violation};
use chiritori::code::remover::removal_evaluator::time_limited_evaluator::TimeLimitedEvaluator;
use chiritori::code::remover::removal_evaluator::RemovalEvaluator;
use chiritori::element_parser::{Attribute, Element};
use serde_json::{json, Value};

const NOWS_UTC: &[&str] = &[
    "2021-06-15T12:00:00Z",
    "2024-02-29T00:00:00Z",
    "2024-03-01T00:00:00Z",
    "2023-12-31T23:59:59Z",
    "2024-01-01T00:00:00Z",
    "2100-02-28T23:59:59Z",
    "1970-01-01T00:00:00Z",
    "2024-02-28T23:59:59Z",
    "2000-02-29T12:00:00Z",
    // beyond the range of 64-bit nanosecond timestamps (1677-09-21 .. 2262-04-11)
    "2300-01-01T00:00:00Z",
    "1600-06-15T12:00:00Z",
];
const NOW_ZONES: &[i64] = &[0, 9 * 3600, -8 * 3600];

const DELTAS: &[i64] = &[
    0, 1, -1, 2, -2, 59, -59, 60, -60, 61, -61, 3599, -3599, 3600, -3600, 3601, -3601, 86399,
    -86399, 86400, -86400, 86401, -86401, 366 * 86400, -366 * 86400,
];

fn fmt_offset(secs: i64, colon: bool) -> String {
    let sign = if secs < 0 { '-' } else { '+' };
    let a = secs.abs();
    if colon {
        format!("{sign}{:02}:{:02}", a / 3600, (a / 60) % 60)
    } else {
        format!("{sign}{:02}{:02}", a / 3600, (a / 60) % 60)
    }
}

fn fmt_rfc3339(unix: i64, zone: i64) -> String {
    let w = render_wall(unix + zone);
    format!("{}T{}{}", &w[0..10], &w[11..19], fmt_offset(zone, true))
}

/// the `to` attribute: None = no attribute at all, Some(None) = valueless, Some(Some(v))
#[derive(Debug, Clone, PartialEq)]
pub struct Decision {
    pub now: String,
    pub off: String,
    pub to: Option<Option<String>>,
}

impl Decision {
    fn to_json(&self) -> Value {
        json!({"engine": "time", "now": self.now, "off": self.off,
            "to": match &self.to { None => json!("<absent>"), Some(None) => json!("<valueless>"), Some(Some(v)) => json!({"value": v}) }})
    }
    fn from_json(v: &Value) -> Option<Decision> {
        let to = match &v["to"] {
            Value::String(s) if s == "<absent>" => None,
            Value::String(s) if s == "<valueless>" => Some(None),
            o => Some(Some(o["value"].as_str()?.to_string())),
        };
        Some(Decision {
            now: v["now"].as_str()?.to_string(),
            off: v["off"].as_str()?.to_string(),
            to,
        })
    }
}

/// reference: ready <=> now >= `to` read as wall clock at the offset
pub fn ref_ready(d: &Decision) -> bool {
    let Some(now) = parse_rfc3339(&d.now) else {
        panic!("harness: bad now {}", d.now)
    };
    match (&d.to, parse_offset(&d.off)) {
        (Some(Some(v)), Some(off)) => match parse_to(v) {
            Some(w) => now >= w - off,
            None => false,
        },
        _ => false,
    }
}

/// observation 1: the evaluator itself
fn obs_evaluator(d: &Decision) -> Result<bool, String> {
    let current = chrono::DateTime::parse_from_rfc3339(&d.now)
        .map_err(|e| format!("harness: {e}"))?
        .with_timezone(&chrono::Local);
    let ev = TimeLimitedEvaluator {
        current_time: current,
        time_offset: d.off.clone(),
    };
    let mut attrs = vec![Attribute {
        name: "c",
        value: Some("x"),
    }];
    match &d.to {
        None => {}
        Some(None) => attrs.push(Attribute {
            name: "to",
            value: None,
        }),
        Some(Some(v)) => attrs.push(Attribute {
            name: "to",
            value: Some(v.as_str()),
        }),
    }
    let el = Element { name: "tl", attrs };
    guarded(|| ev.is_removal(&el)).map_err(|p| format!("panic {}", p.site))
}

/// observation 2: clean on a one-element probe (removed <=> ready)
fn obs_clean(d: &Decision) -> Result<bool, String> {
    let attr = match &d.to {
        None => String::new(),
        Some(None) => " to".to_string(),
        Some(Some(v)) => {
            if v.contains('"') || v.contains('>') {
                return Err("harness: value not renderable".into());
            }
            format!(" to=\"{v}\"")
        }
    };
    // decoys: same tag name and the same attribute *values* under other attribute names, before and
    // after the probe - a decision must depend on nothing but the element itself
    let decoy = match &d.to {
        Some(Some(v)) => format!("<tl until=\"{v}\">\nDECOY();\n</tl>\n"),
        _ => "<tl until=\"2000-01-01 00:00:00\">\nDECOY();\n</tl>\n".to_string(),
    };
    // and an element with an unparseable `to` in front (it stays; it must not disturb what follows)
    let bad = "<tl to=\"never\">\nBADTO();\n</tl>\n";
    let src = format!("a();\n{bad}{decoy}<tl{attr}>\nPROBE();\n</tl>\n{decoy}b();\n");
    let cfg = Cfg {
        now: d.now.clone(),
        off: d.off.clone(),
        ..Cfg::standard()
    };
    match run_clean(&src, "<", ">", &cfg) {
        Err(p) => Err(format!("panic {}", p.site)),
        Ok(out) => {
            if out.matches("DECOY").count() != 2 || out.matches("<tl until").count() != 2 || !out.contains("BADTO") {
                return Err(format!("an element without `to` next to the probe was touched: {out:?}"));
            }
            let removed = !out.contains("PROBE")
                && out.matches("<tl to").count() == 1
                && !out.contains("<tl>")
                && out.matches("</tl>").count() == 3;
            let untouched = out == src;
            if removed == untouched {
                return Err(format!("probe neither removed nor untouched: {out:?}"));
            }
            Ok(removed)
        }
    }
}

pub fn check(d: &Decision) -> Option<(String, String)> {
    let want = ref_ready(d);
    for (name, obs) in [("is_removal", obs_evaluator(d)), ("clean", obs_clean(d))] {
        match obs {
            Err(e) if e.starts_with("panic") => {
                return Some((
                    format!("panic@{}", panic_site_key(e.trim_start_matches("panic "))),
                    format!("{name}: {e}"),
                ))
            }
            Err(e) if e.contains("next to the probe") => {
                return Some(("neighbour-element-affected".into(), format!("{name}: {e}")))
            }
            Err(e) => return Some(("probe-inconclusive".into(), format!("{name}: {e}"))),
            Ok(got) if got != want => {
                let class = match (&d.to, parse_offset(&d.off)) {
                    (Some(Some(v)), Some(_)) if parse_to(v).is_some() => {
                        if want {
                            "expired-not-ready"
                        } else {
                            "unexpired-ready"
                        }
                    }
                    (_, None) => "unparseable-offset-ready",
                    _ => "malformed-to-ready",
                };
                return Some((
                    class.into(),
                    format!("{name} says ready={got}, reference says ready={want}"),
                ));
            }
            Ok(_) => {}
        }
    }
    None
}

pub const MALFORMED_TO: &[&str] = &[
    "2000/01/01 00:00:00",
    "2000.01.01 00:00:00",
    "2000-01-01T00:00:00",
    "2000-01-01",
    "2000-01-01 00:00",
    "00:00:00",
    "2000-13-01 00:00:00",
    "2000-00-01 00:00:00",
    "2000-01-32 00:00:00",
    "2000-01-00 00:00:00",
    "2000-02-30 00:00:00",
    "2001-02-29 00:00:00",
    "1900-02-29 00:00:00",
    "2000-04-31 00:00:00",
    "2000-01-01 24:00:00",
    "2000-01-01 00:60:00",
    "2000-01-01 00:00:61",
    "2000-01-01 00:00:00 +09:00",
    "2000-01-01 00:00:00 +0000",
    "2000-01-01 00:00:00Z",
    "2000-01-01 00:00:00 JST",
    "2000-01-01 00:00:00 UTC",
    "",
    "never",
    "2000-01-01 00:00:0x",
    "20000101000000",
    "0",
];

pub const BAD_OFFSETS: &[&str] = &[
    "", "JST", "UTC", "Z", "09:00", "0900", "+9", "+09:60", "+0900x", "x+09:00", "abc", "+", "-",
    "+:", "+0a:00",
];

fn all_offsets(step_min: i64) -> Vec<i64> {
    let mut v = vec![];
    let mut m = -12 * 60;
    while m <= 14 * 60 {
        v.push(m * 60);
        m += step_min;
    }
    v
}

pub fn run(r: &Report) {
    r.set_rule("decision = (now instant in a zone spelling, offset string, `to` value); grid: 9 instants x 3 zone spellings x all offsets -12:00..+14:00 (quick: 15-minute steps, thorough: 1-minute steps) x {+HH:MM,+HHMM} x 25 second-resolution deltas with `to` = wall-clock rendering of now+delta at the offset; current instants with a fraction of a second (.4 .5 .6 .999999999) x deltas 0, +-1, +-2; plus malformed `to` classes x all offsets x {now = year 9000} and unparseable offsets x {expired, malformed} `to`; each decision observed through is_removal and through clean on a probe; plus monotonicity on a multi-element document over a now-grid; non-trivial = distinct decisions with |delta|<=1 or whose date at the offset differs from the UTC date, and all malformed decisions");
    r.assume("chrono leniencies the statement does not name (second 60 once the second `..:59` is over, unpadded fields, extra whitespace, '+09' / '+25:00' offsets) are not asserted either way");
    let offs = all_offsets(if r.tier == Tier::Quick { 15 } else { 1 });
    let nows: Vec<i64> = NOWS_UTC.iter().map(|s| parse_rfc3339(s).unwrap()).collect();
    // --- well-formed grid
    let radices = [nows.len(), NOW_ZONES.len(), offs.len(), 2, DELTAS.len()];
    let expected: u64 = radices.iter().map(|&x| x as u64).product();
    let counted = explore_product(
        &radices,
        || r.local(),
        |l: &mut Local, dg| {
            let now = nows[dg[0]];
            let off = offs[dg[2]];
            let delta = DELTAS[dg[4]];
            let d = Decision {
                now: fmt_rfc3339(now, NOW_ZONES[dg[1]]),
                off: fmt_offset(off, dg[3] == 0),
                to: Some(Some(render_wall(now + delta + off))),
            };
            let date_differs = render_wall(now + delta + off)[0..10] != render_wall(now + delta)[0..10];
            eval(l, &d, delta.abs() <= 1 || date_differs, if delta <= 0 { "grid-expired" } else { "grid-future" });
        },
        &|| r.stopped(),
    );
    r.expect_count("well-formed decision grid", expected, counted);
    // --- current instants with a fraction of a second, right at the boundary
    let fracs = [".4", ".5", ".6", ".999999999"];
    let near: Vec<i64> = vec![0, 1, -1, 2, -2];
    let radices = [nows.len(), offs.len(), fracs.len(), near.len()];
    let expected: u64 = radices.iter().map(|&x| x as u64).product();
    let counted = explore_product(
        &radices,
        || r.local(),
        |l: &mut Local, dg| {
            let now = nows[dg[0]];
            let off = offs[dg[1]];
            let delta = near[dg[3]];
            let whole = fmt_rfc3339(now, 0);
            // 2021-06-15T12:00:00+00:00 -> 2021-06-15T12:00:00.6+00:00
            let d = Decision {
                now: format!("{}{}{}", &whole[..19], fracs[dg[2]], &whole[19..]),
                off: fmt_offset(off, true),
                to: Some(Some(render_wall(now + delta + off))),
            };
            eval(l, &d, true, if delta <= 0 { "fraction-expired" } else { "fraction-future" });
        },
        &|| r.stopped(),
    );
    r.expect_count("fractional current instants", expected, counted);
    // --- second 60: whether `..:59:60` is unparseable or a leap second that ends one second after
    // `..:59:59` begins, the element is not ready before that second is over (the only clause
    // asserted for this spelling; nothing is claimed from `..:59:59` + 1 s on)
    let before: Vec<(i64, &str)> = vec![(0, ""), (0, ".999999999"), (-1, ""), (-3600, ".5")];
    let radices = [nows.len(), offs.len(), 2, before.len()];
    let expected: u64 = radices.iter().map(|&x| x as u64).product();
    let counted = explore_product(
        &radices,
        || r.local(),
        |l: &mut Local, dg| {
            // t59: an instant whose wall-clock second at the offset is 59 (offsets are whole minutes)
            let t59 = nows[dg[0]] - nows[dg[0]].rem_euclid(60) + 59;
            let off = offs[dg[1]];
            let wall = render_wall(t59 + off);
            assert!(wall.ends_with(":59"), "harness: {wall}");
            let (delta, frac) = before[dg[3]];
            let whole = fmt_rfc3339(t59 + delta, 0);
            let d = Decision {
                now: format!("{}{}{}", &whole[..19], frac, &whole[19..]),
                off: fmt_offset(off, dg[2] == 0),
                to: Some(Some(format!("{}60", &wall[..17]))),
            };
            eval(l, &d, true, "second-60-before-its-end");
        },
        &|| r.stopped(),
    );
    r.expect_count("second 60 x offsets", expected, counted);
    // --- malformed `to` x offsets, far-future now
    let far = ["9000-01-01T00:00:00Z", "2024-01-01T00:00:00+09:00"];
    let mut tos: Vec<Option<Option<String>>> = vec![None, Some(None)];
    tos.extend(MALFORMED_TO.iter().map(|s| Some(Some(s.to_string()))));
    let radices = [far.len(), offs.len(), 2, tos.len()];
    let expected: u64 = radices.iter().map(|&x| x as u64).product();
    let counted = explore_product(
        &radices,
        || r.local(),
        |l: &mut Local, dg| {
            let d = Decision {
                now: far[dg[0]].to_string(),
                off: fmt_offset(offs[dg[1]], dg[2] == 0),
                to: tos[dg[3]].clone(),
            };
            eval(l, &d, true, "malformed-to");
        },
        &|| r.stopped(),
    );
    r.expect_count("malformed `to` x offsets", expected, counted);
    // --- unparseable offsets x {valid expired to, malformed to, valid to with a trailing zone}
    let mut tos2: Vec<Option<Option<String>>> = vec![Some(Some("2000-01-01 00:00:00".into()))];
    tos2.extend(tos.iter().cloned());
    let radices = [far.len(), BAD_OFFSETS.len(), tos2.len()];
    let expected: u64 = radices.iter().map(|&x| x as u64).product();
    let counted = explore_product(
        &radices,
        || r.local(),
        |l: &mut Local, dg| {
            let d = Decision {
                now: far[dg[0]].to_string(),
                off: BAD_OFFSETS[dg[1]].to_string(),
                to: tos2[dg[2]].clone(),
            };
            eval(l, &d, true, "unparseable-offset");
        },
        &|| r.stopped(),
    );
    r.expect_count("unparseable offsets x to", expected, counted);
    if !r.stopped() {
        duplicate_to(r);
    }
    if !r.stopped() {
        monotonicity(r, &offs);
    }
    if !r.stopped() && std::env::var("MC_CHILD").is_err() {
        // the decision must not depend on the process time zone: repeat the whole grid in child
        // processes running under other zones
        for tz in ["Asia/Tokyo", "America/Los_Angeles", "Pacific/Chatham"] {
            crate::child_pass(r, "C05", tz);
        }
    }
}

/// Several `to` attributes: the element's `to` attribute is the first one (assumption recorded
/// in the evidence; the subject and HTML agree on it).
fn duplicate_to(r: &Report) {
    r.assume("an element with several `to` / `name` attributes is decided by the first one");
    let mut l = r.local();
    let cfg = Cfg::standard();
    let rows: &[(&str, bool)] = &[
        ("to=\"2000-01-01 00:00:00\" to=\"2999-01-01 00:00:00\"", true),
        ("to=\"2999-01-01 00:00:00\" to=\"2000-01-01 00:00:00\"", false),
        ("to to=\"2000-01-01 00:00:00\"", false),
        ("to=\"never\" to=\"2000-01-01 00:00:00\"", false),
        ("to=\"2000-01-01 00:00:00\" to", true),
        // an "always expired" sentinel far in the past
        ("to=\"0001-01-01 00:00:00\"", true),
        ("to=\"1600-01-01 00:00:00\"", true),
    ];
    for (attrs, want) in rows {
        let src = format!("a();\n<tl {attrs}>\nPROBE();\n</tl>\nb();\n");
        l.eval();
        l.transition(1);
        let h = hash64(&[src.as_bytes()]);
        l.state(h);
        l.nontrivial(h);
        l.trace_validated(1);
        l.class("duplicate-to");
        let got = match run_clean(&src, "<", ">", &cfg) {
            Ok(o) => !o.contains("PROBE"),
            Err(p) => {
                l.violation(Violation {
                    prop: "C05".into(),
                    class: format!("panic@{}", panic_site_key(&p.site)),
                    case: json!({"engine": "time-dup", "src": src, "want": want}),
                    detail: format!("clean panicked: {}", p.site),
                });
                continue;
            }
        };
        if got != *want {
            l.violation(Violation {
                prop: "C05".into(),
                class: "duplicate-to-not-first".into(),
                case: json!({"engine": "time-dup", "src": src, "want": want}),
                detail: format!("tag <tl {attrs}>: removed={got}, expected {want} (the first `to` attribute decides)"),
            });
        }
    }
}

fn eval(l: &mut Local, d: &Decision, nontrivial: bool, class: &'static str) {
    l.eval();
    l.transition(1);
    let key = format!("{:?}", d);
    let h = hash64(&[key.as_bytes()]);
    l.state(h);
    if nontrivial {
        l.nontrivial(h);
    }
    l.trace_validated(2);
    l.class(class);
    if let Some((class, detail)) = check(d) {
        l.violation(Violation {
            prop: "C05".into(),
            class,
            case: d.to_json(),
            detail,
        });
    } else if l.r.samples_len() < 6 && nontrivial && class.starts_with("grid") {
        l.r.sample(json!({"now": d.now, "offset": d.off, "to": d.to, "ready": ref_ready(d)}));
    }
}

/// For a fixed source the set of removed elements only grows as the current time advances.
fn monotonicity(r: &Report, offs: &[i64]) {
    let base = parse_rfc3339("2024-02-29T00:00:00Z").unwrap();
    let grid: Vec<i64> = vec![
        -400 * 86400, -86401, -3600, -1, 0, 1, 3600, 86400, 400 * 86400,
    ];
    let mut l = r.local();
    let mut pairs = 0u64;
    for &off in offs.iter().step_by(if r.tier == Tier::Quick { 4 } else { 15 }) {
        let offs_s = fmt_offset(off, true);
        // one element per delta
        let mut src = String::new();
        for (i, &dl) in DELTAS.iter().enumerate() {
            src.push_str(&format!(
                "<tl to=\"{}\">\nE{}E();\n</tl>\nkeep{}();\n",
                render_wall(base + dl + off),
                i,
                i
            ));
        }
        let mut removed_sets: Vec<Vec<bool>> = vec![];
        for &g in &grid {
            let cfg = Cfg {
                now: fmt_rfc3339(base + g, 0),
                off: offs_s.clone(),
                ..Cfg::standard()
            };
            l.eval();
            l.transition(1);
            match run_clean(&src, "<", ">", &cfg) {
                Err(p) => {
                    l.violation(Violation {
                        prop: "C05".into(),
                        class: format!("panic@{}", panic_site_key(&p.site)),
                        case: json!({"engine": "time-mono", "src": src, "off": offs_s, "now1": cfg.now, "now2": cfg.now}),
                        detail: format!("clean panicked: {}", p.site),
                    });
                    return;
                }
                Ok(out) => removed_sets.push(
                    (0..DELTAS.len())
                        .map(|i| !out.contains(&format!("E{i}E")))
                        .collect(),
                ),
            }
        }
        for a in 0..grid.len() {
            for b in a..grid.len() {
                pairs += 1;
                l.trace_validated(1);
                let bad = (0..DELTAS.len()).find(|&i| removed_sets[a][i] && !removed_sets[b][i]);
                if let Some(i) = bad {
                    l.violation(Violation {
                        prop: "C05".into(),
                        class: "not-monotone".into(),
                        case: json!({"engine": "time-mono", "src": src, "off": offs_s,
                            "now1": fmt_rfc3339(base + grid[a], 0), "now2": fmt_rfc3339(base + grid[b], 0)}),
                        detail: format!("element {i} removed at the earlier instant but not at the later one"),
                    });
                }
            }
        }
        let h = hash64(&[src.as_bytes(), offs_s.as_bytes()]);
        l.state(h);
        l.nontrivial(h);
    }
    r.extra("monotonicity_ordered_now_pairs", json!(pairs));
}

fn check_mono(case: &Value) -> Option<(String, String)> {
    let src = case["src"].as_str()?;
    let off = case["off"].as_str()?;
    let mut sets = vec![];
    for k in ["now1", "now2"] {
        let cfg = Cfg {
            now: case[k].as_str()?.to_string(),
            off: off.to_string(),
            ..Cfg::standard()
        };
        match run_clean(src, "<", ">", &cfg) {
            Err(p) => {
                return Some((
                    format!("panic@{}", panic_site_key(&p.site)),
                    format!("clean panicked: {}", p.site),
                ))
            }
            Ok(out) => sets.push(
                (0..DELTAS.len())
                    .map(|i| !out.contains(&format!("E{i}E")))
                    .collect::<Vec<bool>>(),
            ),
        }
    }
    (0..DELTAS.len())
        .find(|&i| sets[0][i] && !sets[1][i])
        .map(|i| {
            (
                "not-monotone".to_string(),
                format!("element {i} removed at the earlier instant but not at the later one"),
            )
        })
}

pub fn replay(case: &Value) -> Vec<Violation> {
    let res = if case["engine"] == "time-dup" {
        let src = case["src"].as_str().unwrap_or("");
        let want = case["want"].as_bool().unwrap_or(false);
        match run_clean(src, "<", ">", &Cfg::standard()) {
            Ok(o) if (!o.contains("PROBE")) != want => Some((
                "duplicate-to-not-first".to_string(),
                format!("removed={}, expected {want} (the first `to` attribute decides)", !want),
            )),
            Ok(_) => None,
            Err(p) => Some((
                format!("panic@{}", panic_site_key(&p.site)),
                format!("clean panicked: {}", p.site),
            )),
        }
    } else if case["engine"] == "time-mono" {
        check_mono(case)
    } else {
        Decision::from_json(case).and_then(|d| check(&d))
    };
    res.map(|(class, detail)| Violation {
        prop: "C05".into(),
        class,
        case: case.clone(),
        detail,
    })
    .into_iter()
    .collect()
}
