//! Document-level engine for C01 (totality), C02 (no over-removal), C03 (no under-removal),
//! C04 (no-op identity) and C14 (whitespace confined to removal borders).
//! One exploration (G-ast, G-line, G-tok with macro atoms; delimiter pool; context closure),
//! one oracle set per property.

use crate::align::{is_ws, nonws, Aligner, DEL, KEEP, OPT};
use crate::explore::{explore_choices, explore_seqs, seq_count, Chooser};
use crate::gen::{self, AstParams, Delims, Kind, Names, RenderOpts};
use crate::harness::{hash64, panic_site_key, run_clean, run_list, Cfg, DocCase, ListMode};
use crate::refmodel::{analyse, Analysis, RCfg, Status};
use crate::report::{Local, Report, Tier, Violation};
use serde_json::{json, Value};

#[derive(Clone, Copy, PartialEq, Debug)]
pub enum P {
    C01,
    C02,
    C03,
    C04,
    C14,
}
impl P {
    pub fn id(&self) -> &'static str {
        match self {
            P::C01 => "C01",
            P::C02 => "C02",
            P::C03 => "C03",
            P::C04 => "C04",
            P::C14 => "C14",
        }
    }
    pub fn parse(s: &str) -> Option<P> {
        Some(match s {
            "C01" => P::C01,
            "C02" => P::C02,
            "C03" => P::C03,
            "C04" => P::C04,
            "C14" => P::C14,
            _ => return None,
        })
    }
}

pub struct DocResult {
    pub viol: Option<(String, String)>,
    pub class: &'static str,
    pub nontrivial: bool,
    pub evaluated: bool,
}

fn pieces_c14(src: &str, an: &Analysis) -> (Vec<String>, bool) {
    // bodies of unwrapped ready elements
    let mut bodies: Vec<(usize, usize)> = vec![];
    for i in 0..an.els.len() {
        if an.status[i] == Status::Ready && an.ext[i].len() == 2 {
            bodies.push((an.ext[i][0].1, an.ext[i][1].0));
        }
    }
    let b = src.as_bytes();
    let mut out = vec![];
    let mut rich = false;
    let mut i = 0;
    let trim = |s: &str| s.trim_matches(|c| c == ' ' || c == '\t' || c == '\n').to_string();
    while i < b.len() {
        if an.e[i] {
            i += 1;
            continue;
        }
        let s = i;
        while i < b.len() && !an.e[i] {
            i += 1;
        }
        let stretch = &src[s..i];
        let in_body = bodies.iter().any(|&(bs, be)| bs <= s && i <= be);
        if in_body {
            for line in stretch.split('\n') {
                let t = trim(line);
                if !t.is_empty() {
                    if t.contains("  ") || t.contains('\t') {
                        rich = true;
                    }
                    out.push(t);
                }
            }
        } else {
            let t = trim(stretch);
            if !t.is_empty() {
                if t.contains("  ") || t.contains("\n\n") || t.contains(" \n") || t.contains("\n ") || t.contains('\t') {
                    rich = true;
                }
                out.push(t);
            }
        }
    }
    (out, rich)
}

fn check_c14(src: &str, an: &Analysis, out: &str) -> (Option<(String, String)>, bool) {
    let (pieces, rich) = pieces_c14(src, an);
    let mut pos = 0usize;
    for (k, p) in pieces.iter().enumerate() {
        match out[pos..].find(p.as_str()) {
            Some(q) => pos += q + p.len(),
            None => {
                let class = if out.contains(p.as_str()) {
                    "stretch-out-of-order"
                } else {
                    "stretch-interior-changed"
                };
                return (
                    Some((
                        class.into(),
                        format!("surviving stretch #{k} {p:?} not found verbatim (in order) in output {out:?}"),
                    )),
                    rich,
                );
            }
        }
    }
    (None, rich)
}

pub fn check_doc(case: &DocCase, p: P) -> DocResult {
    let rc = RCfg::from(&case.cfg);
    let an = analyse(&case.src, &case.ds, &case.de, &rc);
    let src = case.src.as_str();
    let out = run_clean(src, &case.ds, &case.de, &case.cfg);
    if p == P::C01 {
        let mut found: Vec<(String, String)> = vec![];
        if let Err(e) = &out {
            found.push((
                format!("panic@{}", panic_site_key(&e.site)),
                format!("clean panicked: {}", e.site),
            ));
        }
        for (mode, mname) in [(ListMode::List, "list"), (ListMode::ListAll, "list_all")] {
            for js in [false, true] {
                match run_list(src, &case.ds, &case.de, &case.cfg, mode, js) {
                    Err(e) => found.push((
                        format!("panic@{}", panic_site_key(&e.site)),
                        format!("{mname}(json={js}) panicked: {}", e.site),
                    )),
                    Ok(Err(e)) => {
                        found.push(("list-error".into(), format!("{mname} returned Err: {e}")))
                    }
                    Ok(Ok(s)) => {
                        if js && serde_json::from_str::<Value>(&s).is_err() {
                            found.push((
                                "invalid-json".into(),
                                format!("{mname} JSON does not parse: {s:?}"),
                            ));
                        }
                    }
                }
            }
        }
        let viol = found.into_iter().next();
        let class = if viol.is_some() {
            "panic-or-error"
        } else if an.n_ready_effective > 0 {
            "returns-with-removal"
        } else if an.n_tags > 0 {
            "returns-tags-no-removal"
        } else {
            "returns-no-tags"
        };
        return DocResult {
            viol,
            class,
            nontrivial: an.n_tags > 0,
            evaluated: true,
        };
    }
    let out = match out {
        Ok(o) => o,
        Err(_) => {
            // a panic is C01's finding; the other oracles have no output to look at
            return DocResult {
                viol: None,
                class: "skipped-panic(C01)",
                nontrivial: false,
                evaluated: false,
            };
        }
    };
    let any_ready = an.n_ready_effective > 0;
    match p {
        P::C04 => {
            if any_ready {
                return DocResult {
                    viol: None,
                    class: "has-ready(not-applicable)",
                    nontrivial: false,
                    evaluated: false,
                };
            }
            let viol = if out != src {
                let class = if nonws(out.as_bytes()) == nonws(src.as_bytes()) {
                    "whitespace-changed-without-removal"
                } else {
                    "text-changed-without-removal"
                };
                Some((class.to_string(), format!("nothing is ready but output differs: {out:?}")))
            } else {
                None
            };
            DocResult {
                viol,
                class: if an.n_tags > 0 { "identity-with-tags" } else { "identity-no-tags" },
                nontrivial: an.n_tags > 0,
                evaluated: true,
            }
        }
        P::C02 | P::C03 => {
            if !any_ready {
                return DocResult {
                    viol: None,
                    class: "no-ready(C04)",
                    nontrivial: false,
                    evaluated: false,
                };
            }
            let b = src.as_bytes();
            let cls: Vec<u8> = (0..b.len())
                .map(|i| {
                    if an.e[i] {
                        DEL
                    } else if is_ws(b[i]) {
                        OPT
                    } else {
                        KEEP
                    }
                })
                .collect();
            let al = Aligner::new(out.as_bytes());
            let keep_ok = al.feasible(b, &cls, true, false);
            let viol = if p == P::C02 {
                if keep_ok {
                    None
                } else if !al.feasible(b, &cls, false, false) {
                    Some((
                        "not-a-deletion".to_string(),
                        format!("output is not the input with ranges taken out: {out:?}"),
                    ))
                } else {
                    Some((
                        "kept-text-lost".to_string(),
                        format!("a non-whitespace character outside every ready extent is missing: {out:?}"),
                    ))
                }
            } else {
                let del_ok = al.feasible(b, &cls, false, true);
                if !del_ok {
                    Some((
                        "ready-text-survives".to_string(),
                        format!("a character of a ready element's extent survives: {out:?}"),
                    ))
                } else if keep_ok {
                    let want: Vec<u8> = (0..b.len())
                        .filter(|&i| !an.e[i] && !is_ws(b[i]))
                        .map(|i| b[i])
                        .collect();
                    if nonws(out.as_bytes()) != want {
                        Some((
                            "nonws-differs".to_string(),
                            format!("non-whitespace text of the output differs from input minus extents: {out:?}"),
                        ))
                    } else {
                        None
                    }
                } else {
                    None
                }
            };
            let nested = (0..an.els.len()).any(|i| {
                an.status[i] == Status::Ready && !an.ext[i].is_empty() && an.els[i].parent.is_some()
            });
            DocResult {
                viol,
                class: if nested { "ready-nested" } else { "ready-toplevel" },
                nontrivial: true,
                evaluated: true,
            }
        }
        P::C14 => {
            if !any_ready {
                return DocResult {
                    viol: None,
                    class: "no-ready(C04)",
                    nontrivial: false,
                    evaluated: false,
                };
            }
            let (viol, rich) = check_c14(src, &an, &out);
            DocResult {
                viol,
                class: if rich { "ready+rich-stretch" } else { "ready+plain-stretches" },
                nontrivial: rich,
                evaluated: true,
            }
        }
        P::C01 => unreachable!(),
    }
}

// ---------------------------------------------------------------------------------------------
// spaces

/// Context closure (DESIGN 2.2): surrounding contexts for a core document.
pub fn contexts(core: &str, d: &Delims, n: &Names, level: u8) -> Vec<String> {
    let mut v = vec![core.to_string()];
    if level == 0 {
        return v;
    }
    let po = gen::open_tag(d, n, Kind::Future, false);
    let pc = gen::close_tag(d, &n.tl);
    v.push(format!("h();\n{core}\nt();\n"));
    v.push(format!("{po}\n{core}\n{pc}\n"));
    v.push(format!("\n{core}"));
    v.push(format!("{core}é"));
    v.push(format!("あ🧹 = 1;\n{core}"));
    // many unclosed (stray) opening tags in front: each stays open for the rest of the document
    v.push(format!(
        "{}{core}",
        (0..70).map(|i| format!("{}stray{i}{}\n", d.ds, d.de)).collect::<String>()
    ));
    // enough text behind the document that a stale or doubled range lands in text, not past the end
    v.push(format!("{core}\n{}", (0..12).map(|i| format!("tail{i}();\n")).collect::<String>()));
    if level >= 2 {
        v.push(format!("{core}{core}"));
        let filler: String = (0..200).map(|i| format!("f{i}();\n")).collect();
        v.push(format!("{filler}{core}"));
        v.push(core.repeat(8));
    }
    v
}

struct Bounds {
    /// G-tok: pairs explored one atom deeper than `tok_n`
    tok_deep_pairs: Vec<usize>,
    /// G-ast passes: (grammar parameters, delimiter pairs)
    asts: Vec<(AstParams, Vec<usize>)>,
    ast_ctx: u8,
    /// G-line passes: (max lines, reduced alphabet?, delimiter pairs, contexts up to this length)
    lines: Vec<(usize, bool, Vec<usize>, usize)>,
    tok_n: usize,
    tok_pairs: Vec<usize>,
    tok_ctx_n: usize,
}

fn bounds(p: P, tier: Tier) -> Bounds {
    let all_pairs: Vec<usize> = (0..gen::POOL.len()).collect();
    let base = AstParams {
        max_lines: 5,
        max_depth: 2,
        block_kinds: vec![Kind::Expired, Kind::Future, Kind::SkipExpired],
        inline_kinds: vec![Kind::Expired],
        unwrap: true,
        ws_lines: false,
        mb: false,
        extra_indent: true,
        blank: true,
        rich: p == P::C14,
        short_unwrap: true,
        shared_lines: tier == Tier::Thorough,
        shared_pairs: vec![],
    };
    match tier {
        Tier::Quick => Bounds {
            // C01 makes five calls per document and repeats everything on the plain build: one
            // size smaller than the other document properties
            asts: vec![(
                AstParams {
                    max_lines: if p == P::C01 { 5 } else { 6 },
                    ..base
                },
                vec![0, 1, 6],
            )],
            ast_ctx: 1,
            lines: vec![(if p == P::C01 { 4 } else { 5 }, true, vec![0], 3)],
            tok_deep_pairs: vec![],
            tok_n: if p == P::C01 { 4 } else { 5 },
            // C01 also covers a spelling with leading / trailing spaces (index POOL.len())
            tok_pairs: if p == P::C01 { vec![0, 1, 8, gen::POOL.len()] } else { vec![0, 1, 8] },
            tok_ctx_n: 3,
        },
        Tier::Thorough => Bounds {
            asts: vec![
                // the quick grammar under every delimiter spelling
                (
                    AstParams {
                        max_lines: 6,
                        shared_lines: false,
                        ..base.clone()
                    },
                    all_pairs.clone(),
                ),
                // wide: every kind, every line form, two regions per line; 5 lines (1.4e7 trees)
                (
                    AstParams {
                        max_lines: 5,
                        max_depth: 2,
                        block_kinds: vec![
                            Kind::Expired,
                            Kind::Future,
                            Kind::Targeted,
                            Kind::SkipExpired,
                            Kind::SkipFuture,
                            Kind::Unregistered,
                        ],
                        inline_kinds: vec![Kind::Expired, Kind::Future],
                        ws_lines: true,
                        mb: true,
                        ..base.clone()
                    },
                    // (C01 makes five calls per document and repeats everything on the plain
                    // build: it keeps the two other passes only)
                    if p == P::C01 { vec![] } else { vec![0] },
                ),
                // deep: 8 lines, nesting depth 3, two kinds (6.0e5 trees)
                (
                    AstParams {
                        max_lines: 8,
                        max_depth: 3,
                        block_kinds: vec![Kind::Expired, Kind::Future],
                        inline_kinds: vec![Kind::Expired],
                        extra_indent: false,
                        shared_lines: false,
                        ..base.clone()
                    },
                    vec![0, 1, 13],
                ),
            ],
            ast_ctx: 1,
            // C01 makes five calls per document and repeats everything on the plain build
            lines: if p == P::C01 {
                vec![(6, true, vec![0], 4), (5, false, vec![0], 3)]
            } else {
                vec![(6, true, vec![0], 4), (5, true, vec![1], 3), (5, false, vec![0], 3)]
            },
            tok_deep_pairs: if p == P::C01 { vec![0] } else { vec![0, 1] },
            tok_n: 5,
            tok_pairs: {
                let mut v = all_pairs;
                v.push(gen::POOL.len());
                v
            },
            tok_ctx_n: 4,
        },
    }
}

fn doc_tok_atoms(d: &Delims, n: &Names) -> Vec<String> {
    // '\r' is not whitespace in the properties' sense (spaces, tabs, line breaks): an ordinary character
    let mut v: Vec<String> = vec![" ".into(), "\n".into(), "a".into(), "あ".into(), "\r".into()];
    for s in [
        gen::open_tag(d, n, Kind::Expired, false),
        gen::close_tag(d, &n.tl),
        gen::open_tag(d, n, Kind::Future, false),
        gen::open_tag(d, n, Kind::Expired, true),
        format!("{} {}", d.ds, d.de),
        format!("{}={}", d.ds, d.de),
        // several `name` attributes: the first one decides (not a target => not ready)
        format!("{}{} name=\"b\" name=\"a\"{}", d.ds, n.rm, d.de),
        gen::close_tag(d, &n.rm),
        d.ds.to_string(),
        d.de.to_string(),
    ] {
        if !v.contains(&s) {
            v.push(s);
        }
    }
    v
}

fn case_json(c: &DocCase) -> Value {
    let mut v = c.to_json();
    v["engine"] = json!("doc");
    v
}

fn eval_case(l: &mut Local, p: P, case: &DocCase, sample_ok: bool) {
    eval_case_after(l, p, case, sample_ok, &[]);
}

/// `prior`: configurations under which the same source was processed on this thread immediately
/// before (recorded in the replay so that a history-dependent defect reproduces)
fn eval_case_after(l: &mut Local, p: P, case: &DocCase, sample_ok: bool, prior: &[&Cfg]) {
    l.eval();
    let h = hash64(&[case.src.as_bytes(), case.ds.as_bytes(), case.de.as_bytes(), case.cfg.now.as_bytes(), &[case.cfg.targets.len() as u8]]);
    l.state(h);
    let res = check_doc(case, p);
    l.class(res.class);
    if res.evaluated {
        l.trace_validated(1);
    }
    if res.nontrivial {
        l.nontrivial(h);
    }
    if let Some((class, detail)) = res.viol {
        l.violation(Violation {
            prop: p.id().into(),
            class,
            case: {
                let mut cj = case_json(case);
                cj["prior"] = json!(prior.iter().map(|c| c.to_json()).collect::<Vec<_>>());
                cj
            },
            detail,
        });
    } else if sample_ok && res.nontrivial && l.r.samples_len() < 8 {
        l.r.sample(json!({"src": case.src, "ds": case.ds, "de": case.de}));
    }
}

pub fn run(r: &Report, p: P) {
    let b = bounds(p, r.tier);
    let names = Names::short();
    let cfg = Cfg::standard();
    r.set_rule(match p {
        P::C01 => "spaces: G-ast trees, G-line line sequences, G-tok atom strings with macro tags, each x delimiter pool x context closure; clean, list, list_all (pretty+JSON) called under catch_unwind with overflow checks; non-trivial = distinct documents with >= 1 tag token",
        P::C02 | P::C03 => "same spaces; oracle = three-class alignment of clean's output against the reference extents (union over ready elements); non-trivial = distinct documents with >= 1 ready element (all evaluated documents)",
        P::C04 => "same spaces restricted to documents where the reference finds no ready element; oracle clean(x)==x; non-trivial = distinct such documents with >= 1 tag token",
        P::C14 => "same spaces with whitespace-rich filler; oracle = in-order verbatim substring search of trimmed surviving stretches (line by line inside unwrapped bodies); non-trivial = distinct documents with a ready element and a stretch with interior whitespace run",
    });
    r.assume("reference extents follow C02/C11 as stated: whole element for the default strategy; for unwrap-block the rest of the opening tag's line plus the next line, and the line before the closing tag plus the line up to the closing tag, applicable iff >= 2 lines lie between the tag lines");
    r.assume("fixed configuration now=2020-01-01T00:00:00Z, offset +00:00, targets {a}; readiness is varied through attribute values (C05/C06 explore the configuration)");

    // ---- phase 1: G-ast -----------------------------------------------------------------
    let cfg_none = Cfg {
        now: "1990-01-01T00:00:00+00:00".into(),
        targets: vec![],
        ..Cfg::standard()
    };
    let cfg_all = Cfg {
        now: "3005-01-01T00:00:00+00:00".into(),
        targets: vec!["a".into(), "b".into()],
        ..Cfg::standard()
    };
    let mv_docs = std::sync::atomic::AtomicU64::new(0);
    let mut ast_passes = vec![];
    for (ast, ast_pairs) in &b.asts {
        if r.stopped() {
            break;
        }
        if ast_pairs.is_empty() {
            continue;
        }
        let ast = ast.clone();
        let single = crate::explore::count_choices(|ch: &mut Chooser| {
            gen::gen_doc(ch, &ast);
        });
        let counted = explore_choices(
            |ch: &mut Chooser| gen::gen_doc(ch, &ast),
            3,
            || r.local(),
            |l: &mut Local, items, trace| {
                l.transition(trace.len() as u64);
                for (pi, &pair) in ast_pairs.iter().enumerate() {
                    let d = gen::pool_any(pair);
                    for final_newline in [true, false] {
                        let rd = gen::render(
                            &items,
                            &RenderOpts {
                                d,
                                names: &names,
                                unit: "  ",
                                tag_ids: false,
                                final_newline,
                                plain: false,
                            },
                        );
                        if pi == 0 && final_newline {
                            // model validation (a): reference pipeline reproduces ground truth
                            let an = analyse(&rd.src, d.ds, d.de, &RCfg::from(&cfg));
                            if an.e != rd.truth_e() {
                                l.r.machinery_failure(format!(
                                    "model validation failed: reference extents differ from ground truth by construction on {:?}",
                                    rd.src
                                ));
                            }
                            mv_docs.fetch_add(1, std::sync::atomic::Ordering::Relaxed);
                        }
                        let lvl = if final_newline { b.ast_ctx } else { 0 };
                        for (ci, src) in contexts(&rd.src, d, &names, lvl).into_iter().enumerate() {
                            let case = DocCase {
                                src,
                                ds: d.ds.into(),
                                de: d.de.into(),
                                cfg: cfg.clone(),
                            };
                            eval_case(l, p, &case, ci == 0 && items.len() >= 2);
                            if ci == 0 && final_newline {
                                // the same source again on the same thread under configurations
                                // where nothing / everything is ready (no state may survive a call)
                                let mut prior: Vec<&Cfg> = vec![&cfg];
                                for c2 in [&cfg_none, &cfg_all] {
                                    let case2 = DocCase {
                                        cfg: (*c2).clone(),
                                        ..case.clone()
                                    };
                                    eval_case_after(l, p, &case2, false, &prior);
                                    prior.push(c2);
                                }
                            }
                        }
                    }
                }
            },
            &|| r.stopped(),
        );
        r.expect_count(
            &format!("G-ast trees max_lines={} depth={} (parallel split vs single-threaded count)", ast.max_lines, ast.max_depth),
            single,
            counted,
        );
        ast_passes.push(json!({"max_lines": ast.max_lines, "max_depth": ast.max_depth, "block_kinds": ast.block_kinds.len(),
            "inline_kinds": ast.inline_kinds.len(), "two_regions_per_line": ast.shared_lines, "delimiter_pairs": ast_pairs.len(), "trees": counted}));
    }
    r.extra("ast_passes", json!(ast_passes));
    r.extra(
        "model_validation",
        json!({"ast_documents_where_reference_pipeline_equals_ground_truth_by_construction": mv_docs.load(std::sync::atomic::Ordering::Relaxed)}),
    );
    // ---- phase 2: G-line ----------------------------------------------------------------
    let line_jobs: Vec<(usize, bool, usize, usize)> = b
        .lines
        .iter()
        .flat_map(|(n, red, pairs, ctx)| pairs.iter().map(move |&pr| (*n, *red, pr, *ctx)))
        .collect();
    for &(line_n, line_reduced, pair, line_ctx_n) in &line_jobs {
        if r.stopped() {
            break;
        }
        let d = gen::pool_any(pair);
        let atoms = gen::line_atoms(d, &names, line_reduced);
        let counted = explore_seqs(
            &atoms,
            line_n,
            || r.local(),
            |l: &mut Local, idx, doc| {
                l.transition(if idx.is_empty() { 0 } else { 1 });
                let lvl = if idx.len() <= line_ctx_n { 2 } else { 1 };
                let mut variants = vec![doc.to_string()];
                if doc.ends_with('\n') {
                    variants.push(doc[..doc.len() - 1].to_string());
                }
                for (vi, core) in variants.iter().enumerate() {
                    let lv = if vi == 0 { lvl } else { 0 };
                    for (ci, src) in contexts(core, d, &names, lv).into_iter().enumerate() {
                        let case = DocCase {
                            src,
                            ds: d.ds.into(),
                            de: d.de.into(),
                            cfg: cfg.clone(),
                        };
                        eval_case(l, p, &case, ci == 0 && idx.len() >= 3);
                    }
                }
            },
            &|| r.stopped(),
        );
        r.expect_count(
            &format!("G-line {:?}/{:?} atoms={} N={}", d.ds, d.de, atoms.len(), line_n),
            seq_count(atoms.len() as u64, line_n as u32),
            counted,
        );
    }
    // ---- phase 4: tags on unwrap wrapper lines --------------------------------------------
    if !r.stopped() {
        for &pair in &[0usize, 1] {
            let d = gen::pool_any(pair);
            let single = crate::explore::count_choices(|ch| touching_family(ch, d, &names));
            let counted = explore_choices(
                |ch: &mut Chooser| touching_family(ch, d, &names),
                4,
                || r.local(),
                |l: &mut Local, src: String, tr| {
                    l.transition(tr.len() as u64);
                    let case = DocCase {
                        src,
                        ds: d.ds.into(),
                        de: d.de.into(),
                        cfg: cfg.clone(),
                    };
                    eval_case(l, p, &case, false);
                },
                &|| r.stopped(),
            );
            r.expect_count(&format!("touching-children family {:?}/{:?}", d.ds, d.de), single, counted);
        }
    }
    // ---- phase 3: G-tok with macro atoms ------------------------------------------------
    for &pair in &b.tok_pairs {
        if r.stopped() {
            break;
        }
        let d = gen::pool_any(pair);
        let atoms = doc_tok_atoms(d, &names);
        let tok_n = if b.tok_deep_pairs.contains(&pair) { b.tok_n + 1 } else { b.tok_n };
        let counted = explore_seqs(
            &atoms,
            tok_n,
            || r.local(),
            |l: &mut Local, idx, doc| {
                l.transition(if idx.is_empty() { 0 } else { 1 });
                let lvl = if idx.len() <= b.tok_ctx_n { 1 } else { 0 };
                for (ci, src) in contexts(doc, d, &names, lvl).into_iter().enumerate() {
                    let case = DocCase {
                        src,
                        ds: d.ds.into(),
                        de: d.de.into(),
                        cfg: cfg.clone(),
                    };
                    eval_case(l, p, &case, ci == 0 && idx.len() >= 3);
                }
            },
            &|| r.stopped(),
        );
        r.expect_count(
            &format!("G-tok {:?}/{:?} atoms={} N={}", d.ds, d.de, atoms.len(), tok_n),
            seq_count(atoms.len() as u64, tok_n as u32),
            counted,
        );
    }
}

/// Phase 4: tags sitting on the wrapper lines of an unwrap-block (C01's "tags on wrapper lines"),
/// with kept lines of varying indentation and a later removal behind the block.
pub fn touching_family(ch: &mut Chooser, d: &Delims, n: &Names) -> String {
    let o = |k: Kind, u: bool| gen::open_tag(d, n, k, u);
    let c = gen::close_tag(d, &n.tl);
    let child_kind = *ch.pick(&[Kind::Expired, Kind::Future]);
    let parent_kind = *ch.pick(&[Kind::Expired, Kind::Future]);
    // in front of the parent's opening tag: nothing, indentation, or indented code
    let tind = ["", "  ", " x(); "][ch.choose(3)];
    // behind a child's closing tag on a wrapper line: ASCII code or a multi-byte character
    let after_child = [" legacy2();", "あ"][ch.choose(2)];
    let mut lines: Vec<String> = vec![];
    if ch.flag() {
        lines.push("head();".into());
    }
    lines.push(format!("{tind}{}", o(parent_kind, true)));
    let tind = if tind.trim().is_empty() { tind } else { "" };
    // where the child sits: 0 inline on the opening wrapper line, 1 opening tag on the opening
    // wrapper line and closing tag on a body line, 2 inline on the closing wrapper line,
    // 3 from the opening wrapper line to the closing wrapper line, 4 on the parent's tag line
    let place = ch.choose(5);
    match place {
        0 => lines.push(format!("{tind}if (a) {{ {} legacy(); {}{after_child}", o(child_kind, false), c)),
        1 | 3 => lines.push(format!("{tind}if (a) {{ {}", o(child_kind, false))),
        4 => {
            let l = lines.pop().unwrap();
            lines.push(format!("{l} {} x(); {}", o(child_kind, false), c));
            lines.push(format!("{tind}if (a) {{"));
        }
        _ => lines.push(format!("{tind}if (a) {{")),
    }
    let nbody = ch.choose(3);
    for i in 0..nbody {
        lines.push(format!("{tind}    body{i}();"));
    }
    if place == 1 {
        lines.push(format!("{tind}    {c}{after_child}"));
    }
    match place {
        2 => lines.push(format!("{tind}}} {} tail(); {}", o(child_kind, false), c)),
        3 => lines.push(format!("{tind}{c} }}")),
        _ => lines.push(format!("{tind}}}")),
    }
    lines.push(format!("{tind}{c}"));
    // kept lines behind the block: first at indent 0..1, then deeper / shallower ones
    let nkept = ch.choose(4);
    for i in 0..nkept {
        let ind = ["", "  ", "      "][ch.choose(3)];
        lines.push(format!("{ind}kept{i}();"));
    }
    // a later removal
    match ch.choose(3) {
        0 => {}
        1 => {
            lines.push(o(Kind::Expired, false));
            lines.push("  late();".into());
            lines.push(c.clone());
        }
        _ => lines.push(format!("z(); {} late(); {} w();", o(Kind::Expired, false), c)),
    }
    if ch.flag() {
        lines.push("    end();".into());
    }
    lines.join("\n") + "\n"
}

pub fn replay(prop: &str, case: &Value) -> Vec<Violation> {
    let (Some(p), Some(c)) = (P::parse(prop), DocCase::from_json(case)) else {
        return vec![];
    };
    let prior: Vec<Cfg> = case["prior"]
        .as_array()
        .map(|a| a.iter().filter_map(Cfg::from_json).collect())
        .unwrap_or_default();
    // a fresh thread (fresh thread-local state), the recorded history first, then the case
    let res = std::thread::scope(|sc| {
        sc.spawn(|| {
            for pc in &prior {
                let _ = check_doc(&DocCase { cfg: pc.clone(), ..c.clone() }, p);
            }
            check_doc(&c, p)
        })
        .join()
    });
    let Ok(res) = res else { return vec![] };
    res.viol
        .map(|(class, detail)| Violation {
            prop: prop.into(),
            class,
            case: case.clone(),
            detail,
        })
        .into_iter()
        .collect()
}
