//! Three-class alignment (DESIGN 2.5): decide exactly whether `y` can be obtained from `x` by
//! deleting characters, subject to per-character constraints. Bit-parallel DP over (i, j).
//!
//! classes: 0 = optional (whitespace outside E), 1 = must-keep (non-whitespace outside E),
//!          2 = must-delete (inside E)

pub const OPT: u8 = 0;
pub const KEEP: u8 = 1;
pub const DEL: u8 = 2;

pub struct Aligner {
    masks: Vec<Vec<u64>>, // per byte value: bit j set iff y[j] == byte
    words: usize,
    m: usize,
}

impl Aligner {
    pub fn new(y: &[u8]) -> Aligner {
        let m = y.len();
        let words = m / 64 + 1;
        let mut masks = vec![Vec::new(); 256];
        for (j, &b) in y.iter().enumerate() {
            let v = &mut masks[b as usize];
            if v.is_empty() {
                *v = vec![0u64; words];
            }
            v[j / 64] |= 1u64 << (j % 64);
        }
        Aligner { masks, words, m }
    }

    /// ∃ set of deleted positions D of x such that x∖D == y, where
    ///   enforce_keep: class-1 characters may not be deleted,
    ///   enforce_del:  class-2 characters must be deleted.
    pub fn feasible(&self, x: &[u8], cls: &[u8], enforce_keep: bool, enforce_del: bool) -> bool {
        let w = self.words;
        // cur bit j set: x[..i] can produce y[..j]
        let mut cur = vec![0u64; w];
        cur[0] = 1;
        let mut nxt = vec![0u64; w];
        let zero: Vec<u64> = vec![0u64; w];
        for i in 0..x.len() {
            let c = cls[i];
            let can_del = !(enforce_keep && c == KEEP);
            let can_keep = !(enforce_del && c == DEL);
            let mask = if self.masks[x[i] as usize].is_empty() {
                &zero
            } else {
                &self.masks[x[i] as usize]
            };
            let mut carry = 0u64;
            let mut any = 0u64;
            for k in 0..w {
                let mut v = 0u64;
                if can_del {
                    v |= cur[k];
                }
                if can_keep {
                    let t = cur[k] & mask[k];
                    v |= (t << 1) | carry;
                    carry = t >> 63;
                }
                nxt[k] = v;
                any |= v;
            }
            if any == 0 {
                return false;
            }
            std::mem::swap(&mut cur, &mut nxt);
        }
        (cur[self.m / 64] >> (self.m % 64)) & 1 == 1
    }
}

pub fn is_ws(b: u8) -> bool {
    b == b' ' || b == b'\t' || b == b'\n'
}

pub fn nonws(s: &[u8]) -> Vec<u8> {
    s.iter().copied().filter(|b| !is_ws(*b)).collect()
}

#[cfg(test)]
mod tests {
    use super::*;
    fn cls(x: &str, e: &[usize]) -> Vec<u8> {
        x.bytes()
            .enumerate()
            .map(|(i, b)| {
                if e.contains(&i) {
                    DEL
                } else if is_ws(b) {
                    OPT
                } else {
                    KEEP
                }
            })
            .collect()
    }
    #[test]
    fn basic() {
        let x = "a b c";
        let c = cls(x, &[2]);
        let a = Aligner::new(b"a c");
        assert!(a.feasible(x.as_bytes(), &c, true, true));
        let a = Aligner::new(b"a b c");
        assert!(a.feasible(x.as_bytes(), &c, true, false));
        assert!(!a.feasible(x.as_bytes(), &c, false, true));
        let a = Aligner::new(b"ac");
        assert!(a.feasible(x.as_bytes(), &c, true, true));
        let a = Aligner::new(b"a");
        assert!(!a.feasible(x.as_bytes(), &c, true, true));
        assert!(a.feasible(x.as_bytes(), &c, false, true));
        let a = Aligner::new(b"ab");
        assert!(!a.feasible(x.as_bytes(), &c, true, true));
    }
    #[test]
    fn long_carry() {
        let x: String = "ab".repeat(100);
        let c = cls(&x, &[]);
        let a = Aligner::new(x.as_bytes());
        assert!(a.feasible(x.as_bytes(), &c, true, true));
        let y = &x[..199];
        let a = Aligner::new(y.as_bytes());
        assert!(!a.feasible(x.as_bytes(), &c, true, true));
        assert!(a.feasible(x.as_bytes(), &c, false, false));
    }
}
