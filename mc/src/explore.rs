//! The explorer: deterministic, exhaustive enumeration
//!  (a) of all sequences over a finite atom alphabet up to a depth (prefixes included), and
//!  (b) of all executions of a nondeterministic generator program (`Chooser`), i.e. stateless
//!      depth-first search over its choice points.
//! Work is split over OS threads by prefix; no sampling anywhere.

use std::sync::atomic::{AtomicUsize, Ordering};

pub fn n_threads() -> usize {
    std::env::var("VERIF_THREADS")
        .ok()
        .and_then(|s| s.parse().ok())
        .unwrap_or_else(|| {
            std::thread::available_parallelism()
                .map(|n| n.get())
                .unwrap_or(4)
                .min(16)
        })
}

/// Σ_{i=0..=n} k^i
pub fn seq_count(k: u64, n: u32) -> u64 {
    let mut t = 0u64;
    let mut p = 1u64;
    for _ in 0..=n {
        t += p;
        p = p.saturating_mul(k);
    }
    t
}

/// Enumerate every sequence of length 0..=max_len over `atoms` (as strings, concatenated).
/// `make` creates one visitor per worker; `visit(worker_state, indices, document)` is called for
/// every sequence (every prefix is a state in its own right). Returns number of sequences
/// visited. `stop` is polled to abandon the search after violations.
pub fn explore_seqs<S, M, V>(
    atoms: &[String],
    max_len: usize,
    make: M,
    visit: V,
    stop: &(dyn Fn() -> bool + Sync),
) -> u64
where
    S: Send,
    M: Fn() -> S + Sync,
    V: Fn(&mut S, &[usize], &str) + Sync,
{
    let k = atoms.len();
    // tasks: all prefixes of length < split (visited as leaves, not expanded) and of length == split (expanded)
    let split = if max_len >= 3 && k >= 4 { 2 } else if max_len >= 2 { 1 } else { 0 };
    let mut tasks: Vec<Vec<usize>> = vec![];
    fn gen(k: usize, split: usize, cur: &mut Vec<usize>, out: &mut Vec<Vec<usize>>) {
        out.push(cur.clone());
        if cur.len() == split {
            return;
        }
        for a in 0..k {
            cur.push(a);
            gen(k, split, cur, out);
            cur.pop();
        }
    }
    gen(k, split, &mut vec![], &mut tasks);
    let next = AtomicUsize::new(0);
    let total = std::sync::atomic::AtomicU64::new(0);
    let nt = n_threads();
    std::thread::scope(|sc| {
        for _ in 0..nt {
            sc.spawn(|| {
                let mut st = make();
                let mut count = 0u64;
                let mut doc = String::new();
                loop {
                    let i = next.fetch_add(1, Ordering::Relaxed);
                    if i >= tasks.len() || stop() {
                        break;
                    }
                    let pre = &tasks[i];
                    doc.clear();
                    for &a in pre {
                        doc.push_str(&atoms[a]);
                    }
                    let mut idx = pre.clone();
                    if pre.len() < split {
                        visit(&mut st, &idx, &doc);
                        count += 1;
                    } else {
                        dfs(atoms, max_len, &mut idx, &mut doc, &mut st, &visit, &mut count, stop);
                    }
                }
                total.fetch_add(count, Ordering::Relaxed);
                drop(st);
            });
        }
    });
    total.load(Ordering::Relaxed)
}

#[allow(clippy::too_many_arguments)]
fn dfs<S, V>(
    atoms: &[String],
    max_len: usize,
    idx: &mut Vec<usize>,
    doc: &mut String,
    st: &mut S,
    visit: &V,
    count: &mut u64,
    stop: &(dyn Fn() -> bool + Sync),
) where
    V: Fn(&mut S, &[usize], &str),
{
    visit(st, idx, doc);
    *count += 1;
    if idx.len() >= max_len {
        return;
    }
    if (*count & 0xfff) == 0 && stop() {
        return;
    }
    for (a, atom) in atoms.iter().enumerate() {
        let l = doc.len();
        idx.push(a);
        doc.push_str(atom);
        dfs(atoms, max_len, idx, doc, st, visit, count, stop);
        doc.truncate(l);
        idx.pop();
    }
}

/// Choice points of a nondeterministic generator. `choose(n)` returns a value in 0..n; the
/// explorer runs the generator once per complete choice sequence (depth-first, leftmost = 0).
pub struct Chooser {
    script: Vec<u32>,
    pub trace: Vec<(u32, u32)>,
}
impl Chooser {
    pub fn new(script: Vec<u32>) -> Self {
        Chooser {
            script,
            trace: vec![],
        }
    }
    #[inline]
    pub fn choose(&mut self, n: usize) -> usize {
        assert!(n > 0, "choose(0)");
        let pos = self.trace.len();
        let c = if pos < self.script.len() {
            self.script[pos]
        } else {
            0
        };
        // a scripted choice out of range means the generator diverged while replaying a prefix
        assert!(
            (c as usize) < n,
            "explorer: generator diverged while replaying a choice prefix (pos {pos}, choice {c} of {n})"
        );
        self.trace.push((c, n as u32));
        c as usize
    }
    pub fn flag(&mut self) -> bool {
        self.choose(2) == 1
    }
    pub fn pick<'a, T>(&mut self, xs: &'a [T]) -> &'a T {
        &xs[self.choose(xs.len())]
    }
    pub fn choices(&self) -> Vec<u32> {
        self.trace.iter().map(|c| c.0).collect()
    }
}

/// Exhaustively run `gen` over all choice sequences. `visit(worker_state, case, choices)`.
/// Returns the number of complete executions.
pub fn explore_choices<T, S, G, M, V>(
    gen: G,
    split_depth: usize,
    make: M,
    visit: V,
    stop: &(dyn Fn() -> bool + Sync),
) -> u64
where
    S: Send,
    G: Fn(&mut Chooser) -> T + Sync,
    M: Fn() -> S + Sync,
    V: Fn(&mut S, T, &[(u32, u32)]) + Sync,
{
    // 1. collect the distinct choice prefixes of length <= split_depth
    let mut prefixes: Vec<Vec<u32>> = vec![];
    {
        let mut script: Vec<u32> = vec![];
        loop {
            let mut ch = Chooser::new(script.clone());
            let _ = gen(&mut ch);
            let tr = &ch.trace;
            let cut = tr.len().min(split_depth);
            let pre: Vec<u32> = tr[..cut].iter().map(|c| c.0).collect();
            prefixes.push(pre);
            // advance within the first `cut` positions only
            let mut i = cut;
            let mut next: Option<Vec<u32>> = None;
            while i > 0 {
                i -= 1;
                if tr[i].0 + 1 < tr[i].1 {
                    let mut s: Vec<u32> = tr[..i].iter().map(|c| c.0).collect();
                    s.push(tr[i].0 + 1);
                    next = Some(s);
                    break;
                }
            }
            match next {
                Some(s) => script = s,
                None => break,
            }
        }
    }
    // MC_COUNT_ONLY: enumerate without executing (used to size bounds)
    let count_only = std::env::var("MC_COUNT_ONLY").is_ok();
    let next = AtomicUsize::new(0);
    let total = std::sync::atomic::AtomicU64::new(0);
    let nt = n_threads();
    std::thread::scope(|sc| {
        for _ in 0..nt {
            sc.spawn(|| {
                let mut st = make();
                let mut count = 0u64;
                loop {
                    let i = next.fetch_add(1, Ordering::Relaxed);
                    if i >= prefixes.len() || stop() {
                        break;
                    }
                    let fixed = prefixes[i].len();
                    let mut script = prefixes[i].clone();
                    let mut prev: Vec<(u32, u32)> = vec![];
                    loop {
                        let mut ch = Chooser::new(script.clone());
                        let case = gen(&mut ch);
                        // replay determinism: the arities along the replayed prefix must not change
                        let keep = script.len().saturating_sub(1).min(prev.len());
                        for j in 0..keep {
                            assert!(
                                ch.trace[j].1 == prev[j].1,
                                "explorer: generator is not deterministic along a replayed prefix"
                            );
                        }
                        if !count_only {
                            visit(&mut st, case, &ch.trace);
                        }
                        count += 1;
                        if (count & 0x3ff) == 0 && stop() {
                            break;
                        }
                        let tr = ch.trace;
                        let mut j = tr.len();
                        let mut nxt: Option<Vec<u32>> = None;
                        while j > fixed {
                            j -= 1;
                            if tr[j].0 + 1 < tr[j].1 {
                                let mut s: Vec<u32> = tr[..j].iter().map(|c| c.0).collect();
                                s.push(tr[j].0 + 1);
                                nxt = Some(s);
                                break;
                            }
                        }
                        prev = tr;
                        match nxt {
                            Some(s) => script = s,
                            None => break,
                        }
                    }
                }
                total.fetch_add(count, Ordering::Relaxed);
                drop(st);
            });
        }
    });
    total.load(Ordering::Relaxed)
}

/// Count the executions of a generator single-threaded (used to cross-check the parallel split).
/// Above `COUNT_CAP` executions the cross-check is skipped (returns `u64::MAX`): it would cost
/// more than the exploration it checks.
pub const COUNT_CAP: u64 = 4_000_000;
pub fn count_choices<T, G: Fn(&mut Chooser) -> T>(gen: G) -> u64 {
    let mut script: Vec<u32> = vec![];
    let mut n = 0u64;
    loop {
        if n > COUNT_CAP {
            return u64::MAX;
        }
        let mut ch = Chooser::new(script.clone());
        let _ = gen(&mut ch);
        n += 1;
        let tr = ch.trace;
        let mut j = tr.len();
        let mut nxt = None;
        while j > 0 {
            j -= 1;
            if tr[j].0 + 1 < tr[j].1 {
                let mut s: Vec<u32> = tr[..j].iter().map(|c| c.0).collect();
                s.push(tr[j].0 + 1);
                nxt = Some(s);
                break;
            }
        }
        match nxt {
            Some(s) => script = s,
            None => break,
        }
    }
    n
}

/// Exhaustive enumeration of a finite product of menus (mixed-radix counter), split over
/// threads by index range. `visit(state, digits)`; digits[i] in 0..radices[i].
pub fn explore_product<S, M, V>(
    radices: &[usize],
    make: M,
    visit: V,
    stop: &(dyn Fn() -> bool + Sync),
) -> u64
where
    S: Send,
    M: Fn() -> S + Sync,
    V: Fn(&mut S, &[usize]) + Sync,
{
    let total: u64 = radices.iter().map(|&r| r as u64).product();
    if total == 0 {
        return 0;
    }
    let nt = n_threads() as u64;
    let chunk = (total / (nt * 8)).max(1);
    let next = std::sync::atomic::AtomicU64::new(0);
    let done = std::sync::atomic::AtomicU64::new(0);
    std::thread::scope(|sc| {
        for _ in 0..nt {
            sc.spawn(|| {
                let mut st = make();
                let mut digits = vec![0usize; radices.len()];
                let mut count = 0u64;
                loop {
                    let lo = next.fetch_add(chunk, Ordering::Relaxed);
                    if lo >= total || stop() {
                        break;
                    }
                    let hi = (lo + chunk).min(total);
                    // decode lo (last digit fastest)
                    let mut x = lo;
                    for i in (0..radices.len()).rev() {
                        digits[i] = (x % radices[i] as u64) as usize;
                        x /= radices[i] as u64;
                    }
                    for n in lo..hi {
                        visit(&mut st, &digits);
                        count += 1;
                        if (n & 0xfff) == 0 && stop() {
                            break;
                        }
                        // increment
                        let mut i = radices.len();
                        while i > 0 {
                            i -= 1;
                            digits[i] += 1;
                            if digits[i] < radices[i] {
                                break;
                            }
                            digits[i] = 0;
                        }
                    }
                }
                done.fetch_add(count, Ordering::Relaxed);
                drop(st);
            });
        }
    });
    done.load(Ordering::Relaxed)
}
