//! The reference model: deliberately boring, written from the property statements, sharing no
//! code with the subject and not using chrono.

use crate::harness::Cfg;

#[derive(Debug, Clone, PartialEq)]
pub struct RTok {
    pub tag: bool,
    pub s: usize,
    pub e: usize,
}

/// C08's wording verbatim: leftmost ds, one body character, first de beginning after it,
/// continue behind the match; everything else is text.
pub fn ref_tokenize(src: &str, ds: &str, de: &str) -> Vec<RTok> {
    let mut out = vec![];
    let mut cur = 0usize;
    let mut text_start = 0usize;
    loop {
        let Some(p) = src[cur..].find(ds).map(|p| p + cur) else {
            break;
        };
        let body0 = p + ds.len();
        let Some(c) = src[body0..].chars().next() else {
            break;
        };
        let from = body0 + c.len_utf8();
        let Some(q) = src[from..].find(de).map(|q| q + from) else {
            break; // no end delimiter behind this start: no later start can have one either
        };
        let end = q + de.len();
        if p > text_start {
            out.push(RTok {
                tag: false,
                s: text_start,
                e: p,
            });
        }
        out.push(RTok {
            tag: true,
            s: p,
            e: end,
        });
        cur = end;
        text_start = end;
    }
    if src.len() > text_start {
        out.push(RTok {
            tag: false,
            s: text_start,
            e: src.len(),
        });
    }
    out
}

#[derive(Debug, Clone, PartialEq)]
pub struct RTag {
    pub name: String,
    pub attrs: Vec<(String, Option<String>)>,
}

/// `body` = tag text without its delimiters (exactly one ds / de stripped).
/// Words separated by runs of ' ' / '\n' outside quotes; `word`, or `word = 'v' | "v"`;
/// an unquoted value is consumed up to the next separator and yields no value.
pub fn ref_tag(body: &str) -> Option<RTag> {
    let cs: Vec<char> = body.chars().collect();
    let sep = |c: char| c == ' ' || c == '\n';
    let mut i = 0;
    let n = cs.len();
    let mut words: Vec<(String, Option<String>)> = vec![];
    loop {
        while i < n && sep(cs[i]) {
            i += 1;
        }
        if i >= n {
            break;
        }
        if cs[i] == '=' || cs[i] == '"' || cs[i] == '\'' {
            return None;
        }
        let st = i;
        while i < n && !sep(cs[i]) && cs[i] != '=' {
            i += 1;
        }
        let w: String = cs[st..i].iter().collect();
        let mut j = i;
        while j < n && sep(cs[j]) {
            j += 1;
        }
        if j < n && cs[j] == '=' {
            j += 1;
            while j < n && sep(cs[j]) {
                j += 1;
            }
            if j < n && (cs[j] == '"' || cs[j] == '\'') {
                let q = cs[j];
                let vs = j + 1;
                let mut k = vs;
                while k < n && cs[k] != q {
                    k += 1;
                }
                if k < n {
                    words.push((w, Some(cs[vs..k].iter().collect())));
                    i = k + 1;
                } else {
                    words.push((w, None));
                    i = n;
                }
            } else {
                let mut k = j;
                while k < n && !sep(cs[k]) {
                    k += 1;
                }
                words.push((w, None));
                i = k;
            }
        } else {
            words.push((w, None));
        }
    }
    if words.is_empty() {
        return None;
    }
    let name = words[0].0.clone();
    Some(RTag {
        name,
        attrs: words[1..].to_vec(),
    })
}

#[derive(Debug, Clone)]
pub struct REl {
    /// token indices
    pub open: usize,
    pub close: usize,
    pub tag: RTag,
    /// index into the element list
    pub parent: Option<usize>,
}

/// Explicit stack of open tags; `/name` pops to the innermost open `name` (everything above
/// becomes text); unmatched closers and leftover openers are text.
pub fn ref_pair(toks: &[RTok], tags: &[Option<RTag>]) -> Vec<REl> {
    let mut stack: Vec<usize> = vec![];
    let mut els: Vec<(usize, usize)> = vec![];
    for (i, t) in toks.iter().enumerate() {
        if !t.tag {
            continue;
        }
        let Some(tag) = &tags[i] else { continue };
        if let Some(nm) = tag.name.strip_prefix('/') {
            let nm = nm.trim_start_matches('/');
            if let Some(pos) = stack
                .iter()
                .rposition(|&o| tags[o].as_ref().unwrap().name == nm)
            {
                let o = stack[pos];
                stack.truncate(pos);
                els.push((o, i));
            }
            continue; // unmatched closer: inert
        }
        stack.push(i);
    }
    els.sort();
    let mut out: Vec<REl> = vec![];
    for &(o, c) in &els {
        let parent = els
            .iter()
            .enumerate()
            .filter(|(_, &(po, pc))| po < o && pc > c)
            .map(|(k, _)| k)
            .last();
        out.push(REl {
            open: o,
            close: c,
            tag: tags[o].clone().unwrap(),
            parent,
        });
    }
    out
}

pub fn days_from_civil(y: i64, m: i64, d: i64) -> i64 {
    let y = if m <= 2 { y - 1 } else { y };
    let era = if y >= 0 { y } else { y - 399 } / 400;
    let yoe = y - era * 400;
    let doy = (153 * (if m > 2 { m - 3 } else { m + 9 }) + 2) / 5 + d - 1;
    let doe = yoe * 365 + yoe / 4 - yoe / 100 + doy;
    era * 146097 + doe - 719468
}

pub fn civil_from_days(z: i64) -> (i64, i64, i64) {
    let z = z + 719468;
    let era = if z >= 0 { z } else { z - 146096 } / 146097;
    let doe = z - era * 146097;
    let yoe = (doe - doe / 1460 + doe / 36524 - doe / 146096) / 365;
    let y = yoe + era * 400;
    let doy = doe - (365 * yoe + yoe / 4 - yoe / 100);
    let mp = (5 * doy + 2) / 153;
    let d = doy - (153 * mp + 2) / 5 + 1;
    let m = if mp < 10 { mp + 3 } else { mp - 9 };
    (if m <= 2 { y + 1 } else { y }, m, d)
}

/// seconds since epoch -> "YYYY-MM-DD HH:MM:SS" (proleptic Gregorian, no zone)
pub fn render_wall(t: i64) -> String {
    let days = t.div_euclid(86400);
    let sod = t.rem_euclid(86400);
    let (y, m, d) = civil_from_days(days);
    format!(
        "{:04}-{:02}-{:02} {:02}:{:02}:{:02}",
        y,
        m,
        d,
        sod / 3600,
        (sod / 60) % 60,
        sod % 60
    )
}

fn num(s: &str) -> Option<i64> {
    if !s.is_empty() && s.bytes().all(|c| c.is_ascii_digit()) {
        s.parse().ok()
    } else {
        None
    }
}

/// strict "YYYY-MM-DD HH:MM:SS" -> seconds since epoch of that wall-clock reading at UTC
pub fn parse_to(s: &str) -> Option<i64> {
    let b = s.as_bytes();
    if b.len() != 19 || !s.is_ascii() {
        return None;
    }
    if b[4] != b'-' || b[7] != b'-' || b[10] != b' ' || b[13] != b':' || b[16] != b':' {
        return None;
    }
    let (y, mo, d, h, mi, se) = (
        num(&s[0..4])?,
        num(&s[5..7])?,
        num(&s[8..10])?,
        num(&s[11..13])?,
        num(&s[14..16])?,
        num(&s[17..19])?,
    );
    if !(1..=12).contains(&mo) || h > 23 || mi > 59 || se > 59 {
        return None;
    }
    let leap = (y % 4 == 0 && y % 100 != 0) || y % 400 == 0;
    let dim = [31, if leap { 29 } else { 28 }, 31, 30, 31, 30, 31, 31, 30, 31, 30, 31]
        [(mo - 1) as usize];
    if d < 1 || d > dim {
        return None;
    }
    Some(days_from_civil(y, mo, d) * 86400 + h * 3600 + mi * 60 + se)
}

/// "+HH:MM" | "+HHMM" | "-HH:MM" | "-HHMM" -> seconds east of UTC
pub fn parse_offset(s: &str) -> Option<i64> {
    let b = s.as_bytes();
    if !s.is_ascii() || b.len() < 5 {
        return None;
    }
    let sign = match b[0] {
        b'+' => 1,
        b'-' => -1,
        _ => return None,
    };
    let (h, m) = if b.len() == 6 && b[3] == b':' {
        (num(&s[1..3])?, num(&s[4..6])?)
    } else if b.len() == 5 {
        (num(&s[1..3])?, num(&s[3..5])?)
    } else {
        return None;
    };
    if m > 59 || h > 23 {
        return None;
    }
    Some(sign * (h * 3600 + m * 60))
}

/// RFC 3339 "YYYY-MM-DDTHH:MM:SS(Z|+HH:MM|-HH:MM)" -> unix seconds
pub fn parse_rfc3339(s: &str) -> Option<i64> {
    if s.len() < 20 || !s.is_ascii() {
        return None;
    }
    let wall = format!("{} {}", &s[0..10], &s[11..19]);
    if &s[10..11] != "T" {
        return None;
    }
    let t = parse_to(&wall)?;
    // optional fraction of a second: an instant W + f (0 <= f < 1) is at or after a whole-second
    // `to` exactly when W is, so the fraction is dropped (floor)
    let mut z = &s[19..];
    if let Some(rest) = z.strip_prefix('.') {
        let digits = rest.bytes().take_while(|b| b.is_ascii_digit()).count();
        if digits == 0 {
            return None;
        }
        z = &rest[digits..];
    }
    let off = if z == "Z" { 0 } else { parse_offset(z)? };
    Some(t - off)
}

#[derive(Debug, Clone, Copy, PartialEq)]
pub enum Status {
    /// condition satisfied, not skip
    Ready,
    /// registered name, not skip, condition not satisfied
    Pending,
    /// skip, or unregistered name
    Inert,
}

pub struct RCfg {
    pub tl: String,
    pub rm: String,
    pub now: i64,
    pub off: Option<i64>,
    pub targets: Vec<String>,
}
impl RCfg {
    pub fn from(c: &Cfg) -> RCfg {
        RCfg {
            tl: c.tl.clone(),
            rm: c.rm.clone(),
            now: parse_rfc3339(&c.now).expect("reference: now must be RFC 3339"),
            off: parse_offset(&c.off),
            targets: c.targets.clone(),
        }
    }
}

pub fn status(t: &RTag, c: &RCfg) -> Status {
    if t.attrs.iter().any(|a| a.0 == "skip") {
        return Status::Inert;
    }
    // if both tag names are configured identically the property is silent; the marker wins in
    // the subject (later insert) - the harness never configures identical names.
    if t.name == c.rm {
        let ok = match t.attrs.iter().find(|a| a.0 == "name") {
            Some((_, Some(v))) => c.targets.iter().any(|x| x == v),
            _ => false,
        };
        return if ok { Status::Ready } else { Status::Pending };
    }
    if t.name == c.tl {
        let ok = match t.attrs.iter().find(|a| a.0 == "to") {
            Some((_, Some(v))) => match (parse_to(v), c.off) {
                (Some(w), Some(off)) => c.now >= w - off,
                _ => false,
            },
            _ => false,
        };
        return if ok { Status::Ready } else { Status::Pending };
    }
    Status::Inert
}

pub fn is_unwrap(t: &RTag) -> bool {
    t.attrs.iter().any(|a| a.0 == "unwrap-block")
}

/// Removable extent of one element as byte ranges: the whole element for the default strategy;
/// for unwrap-block the head `[open.start, end of the line after the line on which the opening
/// tag ends)` and the tail `[start of the line before the line on which the closing tag starts,
/// close.end)`, applicable iff at least two whole lines lie between the two tag lines.
pub fn extents(src: &str, toks: &[RTok], el: &REl) -> Vec<(usize, usize)> {
    let o = &toks[el.open];
    let c = &toks[el.close];
    if !is_unwrap(&el.tag) {
        return vec![(o.s, c.e)];
    }
    let b = src.as_bytes();
    let nl_after = |from: usize| (from..b.len()).find(|&i| b[i] == b'\n');
    let nl_before = |to: usize| (0..to).rev().find(|&i| b[i] == b'\n');
    let h = nl_after(o.e).and_then(|p| nl_after(p + 1));
    let t = nl_before(c.s).and_then(nl_before);
    match (h, t) {
        (Some(end), Some(start)) if start >= end => vec![(o.s, end), (start + 1, c.e)],
        _ => vec![],
    }
}

/// Everything the reference pipeline knows about a document.
pub struct Analysis {
    pub toks: Vec<RTok>,
    pub tags: Vec<Option<RTag>>,
    pub els: Vec<REl>,
    pub status: Vec<Status>,
    /// extents per element (empty for an un-unwrappable unwrap element)
    pub ext: Vec<Vec<(usize, usize)>>,
    /// E: byte positions inside the removable extent of some ready element
    pub e: Vec<bool>,
    pub n_ready_effective: usize,
    pub n_tags: usize,
}

pub fn analyse(src: &str, ds: &str, de: &str, cfg: &RCfg) -> Analysis {
    let toks = ref_tokenize(src, ds, de);
    let tags: Vec<Option<RTag>> = toks
        .iter()
        .map(|t| {
            if t.tag {
                ref_tag(&src[t.s + ds.len()..t.e - de.len()])
            } else {
                None
            }
        })
        .collect();
    let els = ref_pair(&toks, &tags);
    let status: Vec<Status> = els.iter().map(|el| status(&el.tag, cfg)).collect();
    let ext: Vec<Vec<(usize, usize)>> = els.iter().map(|el| extents(src, &toks, el)).collect();
    let mut e = vec![false; src.len()];
    let mut n_ready_effective = 0;
    for (i, _) in els.iter().enumerate() {
        if status[i] == Status::Ready && !ext[i].is_empty() {
            n_ready_effective += 1;
            for &(s, t) in &ext[i] {
                for x in e.iter_mut().take(t).skip(s) {
                    *x = true;
                }
            }
        }
    }
    let n_tags = toks.iter().filter(|t| t.tag).count();
    Analysis {
        toks,
        tags,
        els,
        status,
        ext,
        e,
        n_ready_effective,
        n_tags,
    }
}

#[derive(Debug, Clone, PartialEq)]
pub struct Region {
    pub s: usize,
    pub e: usize,
    pub ready: bool,
}

impl Analysis {
    fn inside_ready(&self, i: usize) -> bool {
        // element i lies wholly inside the extent of a ready ancestor
        let (s, t) = (self.toks[self.els[i].open].s, self.toks[self.els[i].close].e);
        let mut p = self.els[i].parent;
        while let Some(pi) = p {
            if self.status[pi] == Status::Ready
                && self.ext[pi].iter().any(|&(a, b)| a <= s && t <= b)
            {
                return true;
            }
            p = self.els[pi].parent;
        }
        false
    }
    fn inside_pending(&self, i: usize) -> bool {
        let (s, t) = (self.toks[self.els[i].open].s, self.toks[self.els[i].close].e);
        let mut p = self.els[i].parent;
        while let Some(pi) = p {
            if self.status[pi] == Status::Pending
                && self.ext[pi].iter().any(|&(a, b)| a <= s && t <= b)
            {
                return true;
            }
            p = self.els[pi].parent;
        }
        false
    }
    /// Ready regions in source order: one per default-strategy element, two per unwrapped
    /// element, none for regions nested inside a larger deleted region. Only defined (and only
    /// used) for documents in which region boundaries do not touch (C15's restriction).
    pub fn regions(&self, all: bool) -> Vec<Region> {
        let mut out = vec![];
        for i in 0..self.els.len() {
            match self.status[i] {
                Status::Ready => {
                    if self.inside_ready(i) {
                        continue;
                    }
                    for &(s, e) in &self.ext[i] {
                        out.push(Region { s, e, ready: true });
                    }
                }
                Status::Pending if all => {
                    if self.inside_ready(i) || self.inside_pending(i) {
                        continue;
                    }
                    for &(s, e) in &self.ext[i] {
                        out.push(Region { s, e, ready: false });
                    }
                }
                _ => {}
            }
        }
        out.sort_by_key(|r| (r.s, std::cmp::Reverse(r.e)));
        out
    }
}

pub fn line_of(src: &str, pos: usize) -> usize {
    1 + src.as_bytes()[..pos].iter().filter(|&&b| b == b'\n').count()
}

/// display column (tab = 4) of byte position `pos` within its line, ASCII text to the left
fn display_col(src: &str, pos: usize) -> usize {
    let ls = src[..pos].rfind('\n').map(|p| p + 1).unwrap_or(0);
    src[ls..pos]
        .chars()
        .map(|c| if c == '\t' { 4 } else { 1 })
        .sum()
}

/// byte offset of the last character of the region
pub fn last_char_start(src: &str, r: &Region) -> usize {
    src[..r.e].char_indices().next_back().map(|c| c.0).unwrap_or(0)
}

/// The list item text (colour-free form) for a region, from C16's description.
pub fn ref_render_item(src: &str, r: &Region, width: usize) -> (usize, usize, String) {
    let lc = last_char_start(src, r);
    let first = line_of(src, r.s);
    let last = line_of(src, lc);
    let ls = src[..r.s].rfind('\n').map(|p| p + 1).unwrap_or(0);
    let le = src[lc..].find('\n').map(|p| p + lc).unwrap_or(src.len());
    let mut out = String::new();
    out.push_str(&" ".repeat(width + display_col(src, r.s)));
    out.push_str("_start\n");
    for (k, line) in src[ls..le].split('\n').enumerate() {
        out.push_str(&format!("{:>w$} |{}\n", first + k, line.replace('\t', "    "), w = width.saturating_sub(2)));
    }
    out.push_str(&" ".repeat(width + display_col(src, lc)));
    out.push_str("‾end");
    (first, last, out)
}

pub fn strip_ansi(s: &str) -> String {
    let mut out = String::with_capacity(s.len());
    let mut it = s.chars().peekable();
    while let Some(c) = it.next() {
        if c == '\x1b' && it.peek() == Some(&'[') {
            it.next();
            for d in it.by_ref() {
                if d == 'm' {
                    break;
                }
            }
        } else {
            out.push(c);
        }
    }
    out
}
