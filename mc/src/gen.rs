//! Alphabets and generators (DESIGN 2.3): delimiter pool, G-tok atoms, G-line atoms and the
//! G-ast document grammar with ground truth known by construction.

use crate::explore::Chooser;
use crate::harness::{TO_EXPIRED, TO_FUTURE};

#[derive(Debug, Clone, PartialEq)]
pub struct Delims {
    pub ds: &'static str,
    pub de: &'static str,
}

/// The delimiter pool. `edge_space` spellings (leading / trailing space) are only used by the
/// properties whose statements cover them (C01, C07, C08).
pub const POOL: &[Delims] = &[
    Delims { ds: "<", de: ">" },
    Delims { ds: "<!-- <", de: "> -->" },
    Delims { ds: "/* <", de: "> */" },
    Delims { ds: "// --", de: "-- //" },
    Delims { ds: "<!--", de: "-->" },
    Delims { ds: "aab", de: "bba" },
    Delims { ds: "「", de: "」" },
    Delims { ds: "🧹<", de: ">🧹" },
    Delims { ds: "%%", de: "%%" },
    Delims { ds: "%", de: "%" },
    Delims { ds: "(*", de: "*)" },
    Delims { ds: "$^", de: ".+" },
    Delims { ds: "[[", de: "]]" },
    // strongly asymmetric lengths (long start / one-character end, and the reverse)
    Delims { ds: "<!-- <", de: ">" },
    Delims { ds: "#", de: "--#>" },
];
pub const POOL_EDGE_SPACE: &[Delims] = &[Delims { ds: " @", de: "@ " }];

/// POOL followed by the leading/trailing-space spellings
pub fn pool_any(i: usize) -> &'static Delims {
    if i < POOL.len() {
        &POOL[i]
    } else {
        &POOL_EDGE_SPACE[i - POOL.len()]
    }
}

pub fn pool(n: usize) -> Vec<Delims> {
    POOL.iter().take(n).cloned().collect()
}
pub fn pool_with_edge_space() -> Vec<Delims> {
    POOL.iter().chain(POOL_EDGE_SPACE.iter()).cloned().collect()
}

/// an identifier written with full-width characters only (no ASCII byte)
pub fn fullwidth(id: &str) -> String {
    id.chars()
        .map(|c| match c {
            '0'..='9' => char::from_u32(0xFF10 + (c as u32 - '0' as u32)).unwrap(),
            'a'..='z' => char::from_u32(0xFF41 + (c as u32 - 'a' as u32)).unwrap(),
            'A'..='Z' => char::from_u32(0xFF21 + (c as u32 - 'A' as u32)).unwrap(),
            _ => '＿',
        })
        .collect()
}

fn push_unique(v: &mut Vec<String>, s: String) {
    if !s.is_empty() && !v.contains(&s) {
        v.push(s);
    }
}

/// Character-level atoms for a delimiter pair, simplest first.
pub fn tok_atoms(ds: &str, de: &str, fillers: &[&str], with_prefixes: bool) -> Vec<String> {
    let mut v: Vec<String> = vec![];
    for f in fillers {
        push_unique(&mut v, f.to_string());
    }
    for c in ds.chars().chain(de.chars()) {
        push_unique(&mut v, c.to_string());
    }
    if with_prefixes {
        for d in [ds, de] {
            let cs: Vec<char> = d.chars().collect();
            for l in 2..cs.len() {
                push_unique(&mut v, cs[..l].iter().collect());
            }
        }
    }
    // where a suffix of one delimiter is a prefix of another (or of itself), the rest of the
    // second one: together with the first it forms an overlapping occurrence
    for (a, b) in [(ds, de), (de, ds), (ds, ds), (de, de)] {
        let bc: Vec<char> = b.chars().collect();
        for k in 1..bc.len() {
            let pre: String = bc[..k].iter().collect();
            if a.ends_with(&pre) {
                push_unique(&mut v, bc[k..].iter().collect());
            }
        }
    }
    push_unique(&mut v, ds.to_string());
    push_unique(&mut v, de.to_string());
    v
}

#[derive(Debug, Clone, Copy, PartialEq, Eq, Hash)]
pub enum Kind {
    Expired,
    Future,
    /// time-limited, expires 2500-01-01 (pending under the standard configuration)
    Later,
    Targeted,
    Untargeted,
    SkipExpired,
    /// skip and not yet expired: inert (neither Ready nor Pending)
    SkipFuture,
    Unregistered,
}
pub const ALL_KINDS: &[Kind] = &[
    Kind::Expired,
    Kind::Future,
    Kind::Targeted,
    Kind::Untargeted,
    Kind::SkipExpired,
    Kind::SkipFuture,
    Kind::Unregistered,
];
impl Kind {
    pub fn ready(&self) -> bool {
        matches!(self, Kind::Expired | Kind::Targeted)
    }
    pub fn pending(&self) -> bool {
        matches!(self, Kind::Future | Kind::Later | Kind::Untargeted)
    }
    pub fn tag_name<'a>(&self, tl: &'a str, rm: &'a str) -> &'a str {
        match self {
            Kind::Expired | Kind::Future | Kind::Later | Kind::SkipExpired | Kind::SkipFuture => tl,
            Kind::Targeted | Kind::Untargeted => rm,
            Kind::Unregistered => "zz",
        }
    }
    /// the text between the delimiters of the opening tag
    pub fn open_body(&self, tl: &str, rm: &str, unwrap: bool, extra: &str) -> String {
        let mut s = match self {
            Kind::Expired => format!("{tl} to=\"{TO_EXPIRED}\""),
            Kind::Future => format!("{tl} to=\"{TO_FUTURE}\""),
            Kind::Later => format!("{tl} to=\"2500-01-01 00:00:00\""),
            Kind::Targeted => format!("{rm} name=\"a\""),
            Kind::Untargeted => format!("{rm} name=\"b\""),
            Kind::SkipExpired => format!("{tl} to=\"{TO_EXPIRED}\" skip"),
            Kind::SkipFuture => format!("{tl} to=\"{TO_FUTURE}\" skip"),
            Kind::Unregistered => format!("zz to=\"{TO_EXPIRED}\""),
        };
        if unwrap {
            s.push_str(" unwrap-block");
        }
        s.push_str(extra);
        s
    }
}

/// Names used when rendering: (time-limited tag name, removal-marker tag name)
#[derive(Debug, Clone, PartialEq)]
pub struct Names {
    pub tl: String,
    pub rm: String,
}
impl Names {
    pub fn short() -> Names {
        Names {
            tl: "tl".into(),
            rm: "rm".into(),
        }
    }
}

/// Macro atoms (whole tags) for G-tok / G-line.
pub fn open_tag(d: &Delims, n: &Names, k: Kind, unwrap: bool) -> String {
    format!("{}{}{}", d.ds, k.open_body(&n.tl, &n.rm, unwrap, ""), d.de)
}
pub fn close_tag(d: &Delims, name: &str) -> String {
    format!("{}/{}{}", d.ds, name, d.de)
}

/// G-line alphabet: whole lines (each ending in '\n'), no well-formedness imposed.
pub fn line_atoms(d: &Delims, n: &Names, reduced: bool) -> Vec<String> {
    let o = |k: Kind, u: bool| open_tag(d, n, k, u);
    let c = |nm: &str| close_tag(d, nm);
    let mut v = vec![
        "x\n".to_string(),
        "  y\n".to_string(),
        "\n".to_string(),
        format!("{}\n", o(Kind::Expired, false)),
        format!("{}\n", c(&n.tl)),
        format!("{}\n", o(Kind::Expired, true)),
        format!("{}\n", o(Kind::Future, false)),
        format!("  {}\n", o(Kind::Expired, false)),
        format!("  {}\n", c(&n.tl)),
        format!("q {}i{} w\n", o(Kind::Expired, false), c(&n.tl)),
        format!("{} k\n", o(Kind::Expired, false)),
        format!("z {}\n", c(&n.tl)),
        // the strategy flag written before the condition attribute
        format!("{}{} unwrap-block to=\"{TO_EXPIRED}\"{}\n", d.ds, n.tl, d.de),
        // code followed by an opening tag that ends the line
        format!("w {}\n", o(Kind::Expired, false)),
        // a closing tag with a line break inside it (line breaks are legal separators in a tag)
        format!("{}/{}\n{}\n", d.ds, n.tl, d.de),
        // code behind a closing tag on its line
        format!("{} k\n", c(&n.tl)),
    ];
    if !reduced {
        v.extend([
            // a closing tag that carries an attribute still closes
            format!("{}/{} end{}\n", d.ds, n.tl, d.de),
            "  \n".to_string(),
            "あ\n".to_string(),
            format!("{}\n", o(Kind::Future, true)),
            format!("{}\n", o(Kind::SkipExpired, false)),
            format!("{}\n", o(Kind::Unregistered, false)),
            format!("{}\n", o(Kind::Targeted, false)),
            format!("{}\n", c(&n.rm)),
            format!("{}\n", c("zz")),
            format!("\t{}\n", o(Kind::Expired, true)),
        ]);
    }
    v
}

// ---------------------------------------------------------------------------------------------
// G-ast

#[derive(Debug, Clone, PartialEq)]
pub enum Item {
    /// a code line: extra indentation units beyond the structural level, multi-byte text or not
    /// `rich`: interior double spaces and trailing spaces (whitespace-rich filler for C14)
    Code { extra: u8, mb: bool, rich: bool },
    Blank,
    /// whitespace-only line: 1 = two spaces, 2 = one tab
    Ws(u8),
    Block {
        kind: Kind,
        unwrap: bool,
        body: Vec<Item>,
    },
    /// an element with the unwrap-block attribute but only one line between its tags:
    /// it cannot be unwrapped (three lines: tag, code, tag)
    ShortUnwrap { kind: Kind },
    /// two elements on one line: side by side, or the second nested in the first
    /// `touching`: no byte between the first closing and the second opening tag; nested: the second
    /// is the only child of the first, no byte between the two opening and the two closing tags
    Inline2 { k1: Kind, k2: Kind, nested: bool, touching: bool },
    /// two nested default-strategy blocks whose tags share lines: `<o1><o2>` / body / `</c2></c1>`
    Block2 { k1: Kind, k2: Kind, body: Vec<Item> },
    /// code? <tag>content</tag> code?   on one line
    Inline {
        kind: Kind,
        pre: bool,
        post: bool,
        content: bool,
    },
}

#[derive(Debug, Clone)]
pub struct AstParams {
    pub max_lines: usize,
    pub max_depth: usize,
    pub block_kinds: Vec<Kind>,
    pub inline_kinds: Vec<Kind>,
    pub unwrap: bool,
    pub ws_lines: bool,
    pub mb: bool,
    pub extra_indent: bool,
    pub blank: bool,
    pub rich: bool,
    pub short_unwrap: bool,
    /// two elements starting on the same line (Inline2 / Block2)
    pub shared_lines: bool,
    /// kind pairs used for Inline2 / Block2 (empty = all pairs of inline_kinds)
    pub shared_pairs: Vec<(Kind, Kind)>,
}

pub fn size(items: &[Item]) -> usize {
    items
        .iter()
        .map(|i| match i {
            Item::Block { unwrap, body, .. } => (if *unwrap { 4 } else { 2 }) + size(body),
            Item::ShortUnwrap { .. } => 3,
            Item::Block2 { body, .. } => 2 + size(body),
            _ => 1,
        })
        .sum()
}

#[derive(Clone, Copy)]
enum Opt {
    End,
    Code(u8, bool, bool),
    Blank,
    Ws(u8),
    Inline(Kind, bool, bool, bool),
    Block(Kind, bool),
    Short(Kind),
    Inline2(Kind, Kind, bool, bool),
    Block2(Kind, Kind),
}

pub fn gen_doc(ch: &mut Chooser, p: &AstParams) -> Vec<Item> {
    let mut budget = p.max_lines;
    gen_list(ch, p, &mut budget, 0)
}

fn gen_list(ch: &mut Chooser, p: &AstParams, budget: &mut usize, depth: usize) -> Vec<Item> {
    let mut v = vec![];
    loop {
        if *budget == 0 {
            break;
        }
        let mut opts: Vec<Opt> = vec![Opt::End, Opt::Code(0, false, false)];
        if p.extra_indent {
            opts.push(Opt::Code(1, false, false));
        }
        if p.mb {
            opts.push(Opt::Code(0, true, false));
        }
        if p.rich {
            opts.push(Opt::Code(0, false, true));
        }
        if p.blank {
            opts.push(Opt::Blank);
        }
        if p.ws_lines {
            opts.push(Opt::Ws(1));
            opts.push(Opt::Ws(2));
        }
        for &k in &p.inline_kinds {
            opts.push(Opt::Inline(k, true, true, true));
            opts.push(Opt::Inline(k, false, false, true));
        }
        if p.shared_lines {
            let mut pairs = p.shared_pairs.clone();
            if pairs.is_empty() {
                for &k1 in &p.inline_kinds {
                    for &k2 in &p.inline_kinds {
                        pairs.push((k1, k2));
                    }
                }
            }
            for (k1, k2) in pairs {
                opts.push(Opt::Inline2(k1, k2, false, false));
                opts.push(Opt::Inline2(k1, k2, true, false));
                opts.push(Opt::Inline2(k1, k2, false, true));
                // the second is the only child of the first and touches both of its tags
                opts.push(Opt::Inline2(k1, k2, true, true));
                if depth < p.max_depth && *budget >= 2 {
                    opts.push(Opt::Block2(k1, k2));
                }
            }
        }
        if depth < p.max_depth {
            for &k in &p.block_kinds {
                if *budget >= 2 {
                    opts.push(Opt::Block(k, false));
                }
                if p.unwrap && *budget >= 4 {
                    opts.push(Opt::Block(k, true));
                }
                if p.short_unwrap && *budget >= 3 {
                    opts.push(Opt::Short(k));
                }
            }
        }
        match opts[ch.choose(opts.len())] {
            Opt::End => break,
            Opt::Code(e, mb, rich) => {
                *budget -= 1;
                v.push(Item::Code {
                    extra: e,
                    mb,
                    rich,
                });
            }
            Opt::Blank => {
                *budget -= 1;
                v.push(Item::Blank);
            }
            Opt::Ws(k) => {
                *budget -= 1;
                v.push(Item::Ws(k));
            }
            Opt::Inline(kind, pre, post, content) => {
                *budget -= 1;
                v.push(Item::Inline {
                    kind,
                    pre,
                    post,
                    content,
                });
            }
            Opt::Short(kind) => {
                *budget -= 3;
                v.push(Item::ShortUnwrap { kind });
            }
            Opt::Inline2(k1, k2, nested, touching) => {
                *budget -= 1;
                v.push(Item::Inline2 {
                    k1,
                    k2,
                    nested,
                    touching,
                });
            }
            Opt::Block2(k1, k2) => {
                *budget -= 2;
                let body = gen_list(ch, p, budget, depth + 1);
                v.push(Item::Block2 { k1, k2, body });
            }
            Opt::Block(kind, unwrap) => {
                *budget -= if unwrap { 4 } else { 2 };
                let body = gen_list(ch, p, budget, depth + 1);
                v.push(Item::Block { kind, unwrap, body });
            }
        }
    }
    v
}

#[derive(Debug, Clone)]
pub struct ElemTruth {
    pub kind: Kind,
    pub unwrap: bool,
    pub inline: bool,
    pub open: (usize, usize),
    pub close: (usize, usize),
    /// unwrap only: byte range of the opening wrapper line (without '\n') and of the closing one
    pub wrap_open: (usize, usize),
    pub wrap_close: (usize, usize),
    pub parent: Option<usize>,
    pub depth: usize,
}

#[derive(Debug, Clone)]
pub struct LineTruth {
    /// unique identifier text on the line (empty for blank / ws / tag lines)
    pub id: String,
    /// innermost enclosing elements, outermost first
    pub owners: Vec<usize>,
    /// role: 0 code, 1 blank/ws, 2 open tag line, 3 close tag line, 4 wrapper open, 5 wrapper close, 6 inline line
    pub role: u8,
    /// element this line belongs to as tag / wrapper / inline line
    pub elem: Option<usize>,
    pub range: (usize, usize),
}

#[derive(Debug, Clone)]
pub struct Rendered {
    pub src: String,
    pub elems: Vec<ElemTruth>,
    pub lines: Vec<LineTruth>,
}

pub struct RenderOpts<'a> {
    pub d: &'a Delims,
    pub names: &'a Names,
    pub unit: &'a str,
    /// add a unique c="kN" attribute to every opening tag
    pub tag_ids: bool,
    pub final_newline: bool,
    /// code text made of letters, digits and spaces only (no character of any pool delimiter)
    pub plain: bool,
}

pub fn render(items: &[Item], o: &RenderOpts) -> Rendered {
    let mut r = Rendered {
        src: String::new(),
        elems: vec![],
        lines: vec![],
    };
    let mut ctr = 0usize;
    render_list(items, o, 0, &mut vec![], &mut r, &mut ctr);
    if !o.final_newline && r.src.ends_with('\n') {
        r.src.pop();
    }
    r
}

fn next_id(ctr: &mut usize) -> String {
    *ctr += 1;
    format!("k{}", *ctr)
}

fn push_line(
    r: &mut Rendered,
    text: &str,
    id: String,
    owners: &[usize],
    role: u8,
    elem: Option<usize>,
) -> (usize, usize) {
    let s = r.src.len();
    r.src.push_str(text);
    let e = r.src.len();
    r.src.push('\n');
    r.lines.push(LineTruth {
        id,
        owners: owners.to_vec(),
        role,
        elem,
        range: (s, e),
    });
    (s, e)
}

fn render_list(
    items: &[Item],
    o: &RenderOpts,
    level: usize,
    owners: &mut Vec<usize>,
    r: &mut Rendered,
    ctr: &mut usize,
) {
    let ind = |n: usize| o.unit.repeat(n);
    for it in items {
        match it {
            Item::Code { extra, mb, rich } => {
                let id = next_id(ctr);
                let text = if o.plain {
                    format!("{}{} x", ind(level + *extra as usize), id)
                } else if *rich {
                    format!("{}{}  =  1;  ", ind(level + *extra as usize), id)
                } else if *mb {
                    // a line without any ASCII byte except its indentation, ending in a multi-byte character
                    format!("{}{}開", ind(level + *extra as usize), fullwidth(&id))
                } else {
                    format!("{}{}();", ind(level + *extra as usize), id)
                };
                push_line(r, &text, id, owners, 0, None);
            }
            Item::Blank => {
                push_line(r, "", String::new(), owners, 1, None);
            }
            Item::Ws(k) => {
                push_line(
                    r,
                    if *k == 1 { "  " } else { "\t" },
                    String::new(),
                    owners,
                    1,
                    None,
                );
            }
            Item::Inline {
                kind,
                pre,
                post,
                content,
            } => {
                let id = next_id(ctr);
                let idx = r.elems.len();
                let extra = if o.tag_ids {
                    format!(" c=\"{}\"", id)
                } else {
                    String::new()
                };
                let name = kind.tag_name(&o.names.tl, &o.names.rm).to_string();
                let opn = format!(
                    "{}{}{}",
                    o.d.ds,
                    kind.open_body(&o.names.tl, &o.names.rm, false, &extra),
                    o.d.de
                );
                let cls = close_tag(o.d, &name);
                let mut text = ind(level);
                if *pre {
                    text.push_str(&if o.plain { format!("{}p 1 ", id) } else { format!("{}a = 1; ", id) });
                }
                let base = r.src.len();
                let os = base + text.len();
                text.push_str(&opn);
                let oe = base + text.len();
                if *content {
                    text.push_str(&format!(" {}i "
, id));
                }
                let cs = base + text.len();
                text.push_str(&cls);
                let ce = base + text.len();
                if *post {
                    text.push_str(&if o.plain { format!(" {}q 2", id) } else { format!(" {}b = 2;", id) });
                }
                r.elems.push(ElemTruth {
                    kind: *kind,
                    unwrap: false,
                    inline: true,
                    open: (os, oe),
                    close: (cs, ce),
                    wrap_open: (0, 0),
                    wrap_close: (0, 0),
                    parent: owners.last().copied(),
                    depth: owners.len(),
                });
                push_line(r, &text, id, owners, 6, Some(idx));
            }
            Item::Inline2 {
                k1,
                k2,
                nested,
                touching,
            } => {
                let id = next_id(ctr);
                let mk = |k: &Kind, n: usize| -> (String, String) {
                    let extra = if o.tag_ids { format!(" c=\"{}x{}\"", id, n) } else { String::new() };
                    let name = k.tag_name(&o.names.tl, &o.names.rm).to_string();
                    (
                        format!("{}{}{}", o.d.ds, k.open_body(&o.names.tl, &o.names.rm, false, &extra), o.d.de),
                        close_tag(o.d, &name),
                    )
                };
                let (o1, c1) = mk(k1, 1);
                let (o2, c2) = mk(k2, 2);
                let base = r.src.len();
                let mut text = ind(level);
                text.push_str(&format!("{}p 1 ", id));
                let mut span = |text: &mut String, piece: &str| -> (usize, usize) {
                    let s = base + text.len();
                    text.push_str(piece);
                    (s, base + text.len())
                };
                let i1 = r.elems.len();
                let i2 = i1 + 1;
                let (a1, a2, b1, b2);
                if *nested {
                    a1 = span(&mut text, &o1);
                    if !*touching {
                        text.push_str(&format!(" {}i ", id));
                    }
                    b1 = span(&mut text, &o2);
                    text.push_str(&format!(" {}j ", id));
                    b2 = span(&mut text, &c2);
                    if !*touching {
                        text.push_str(&format!(" {}k ", id));
                    }
                    a2 = span(&mut text, &c1);
                } else {
                    a1 = span(&mut text, &o1);
                    text.push_str(&format!(" {}i ", id));
                    a2 = span(&mut text, &c1);
                    if !*touching {
                        text.push_str(&format!(" {}m ", id));
                    }
                    b1 = span(&mut text, &o2);
                    text.push_str(&format!(" {}j ", id));
                    b2 = span(&mut text, &c2);
                }
                text.push_str(&format!(" {}q 2", id));
                for (k, op, cl, par) in [
                    (*k1, a1, a2, owners.last().copied()),
                    (*k2, b1, b2, if *nested { Some(i1) } else { owners.last().copied() }),
                ] {
                    r.elems.push(ElemTruth {
                        kind: k,
                        unwrap: false,
                        inline: true,
                        open: op,
                        close: cl,
                        wrap_open: (0, 0),
                        wrap_close: (0, 0),
                        parent: par,
                        depth: owners.len(),
                    });
                }
                let _ = i2;
                push_line(r, &text, id, owners, 6, Some(i1));
            }
            Item::Block2 { k1, k2, body } => {
                let id = next_id(ctr);
                let mk = |k: &Kind, n: usize| -> (String, String) {
                    let extra = if o.tag_ids { format!(" c=\"{}x{}\"", id, n) } else { String::new() };
                    let name = k.tag_name(&o.names.tl, &o.names.rm).to_string();
                    (
                        format!("{}{}{}", o.d.ds, k.open_body(&o.names.tl, &o.names.rm, false, &extra), o.d.de),
                        close_tag(o.d, &name),
                    )
                };
                let (o1, c1) = mk(k1, 1);
                let (o2, c2) = mk(k2, 2);
                let i1 = r.elems.len();
                let i2 = i1 + 1;
                for (k, par) in [(*k1, owners.last().copied()), (*k2, Some(i1))] {
                    r.elems.push(ElemTruth {
                        kind: k,
                        unwrap: false,
                        inline: false,
                        open: (0, 0),
                        close: (0, 0),
                        wrap_open: (0, 0),
                        wrap_close: (0, 0),
                        parent: par,
                        depth: owners.len(),
                    });
                }
                let il = ind(level).len();
                let (ls, le) = push_line(r, &format!("{}{}{}", ind(level), o1, o2), String::new(), owners, 2, Some(i1));
                r.elems[i1].open = (ls + il, ls + il + o1.len());
                r.elems[i2].open = (ls + il + o1.len(), le);
                owners.push(i1);
                owners.push(i2);
                render_list(body, o, level, owners, r, ctr);
                owners.pop();
                owners.pop();
                let (ls, le) = push_line(r, &format!("{}{}{}", ind(level), c2, c1), String::new(), owners, 3, Some(i1));
                r.elems[i2].close = (ls + il, ls + il + c2.len());
                r.elems[i1].close = (ls + il + c2.len(), le);
                let _ = id;
            }
            Item::ShortUnwrap { kind } => {
                let id = next_id(ctr);
                let idx = r.elems.len();
                let extra = if o.tag_ids {
                    format!(" c=\"{}\"", id)
                } else {
                    String::new()
                };
                let name = kind.tag_name(&o.names.tl, &o.names.rm).to_string();
                let opn = format!(
                    "{}{}{}",
                    o.d.ds,
                    kind.open_body(&o.names.tl, &o.names.rm, true, &extra),
                    o.d.de
                );
                let cls = close_tag(o.d, &name);
                r.elems.push(ElemTruth {
                    kind: *kind,
                    unwrap: true,
                    inline: false,
                    open: (0, 0),
                    close: (0, 0),
                    wrap_open: (0, 0),
                    wrap_close: (0, 0),
                    parent: owners.last().copied(),
                    depth: owners.len(),
                });
                let (ls, le) = push_line(r, &format!("{}{}", ind(level), opn), String::new(), owners, 2, Some(idx));
                r.elems[idx].open = (ls + ind(level).len(), le);
                owners.push(idx);
                push_line(r, &if o.plain { format!("{}{} x", ind(level), id) } else { format!("{}{}();", ind(level), id) }, id.clone(), owners, 0, None);
                owners.pop();
                let (ls, le) = push_line(r, &format!("{}{}", ind(level), cls), String::new(), owners, 3, Some(idx));
                r.elems[idx].close = (ls + ind(level).len(), le);
            }
            Item::Block { kind, unwrap, body } => {
                let id = next_id(ctr);
                let idx = r.elems.len();
                let extra = if o.tag_ids {
                    format!(" c=\"{}\"", id)
                } else {
                    String::new()
                };
                let name = kind.tag_name(&o.names.tl, &o.names.rm).to_string();
                let opn = format!(
                    "{}{}{}",
                    o.d.ds,
                    kind.open_body(&o.names.tl, &o.names.rm, *unwrap, &extra),
                    o.d.de
                );
                let cls = close_tag(o.d, &name);
                r.elems.push(ElemTruth {
                    kind: *kind,
                    unwrap: *unwrap,
                    inline: false,
                    open: (0, 0),
                    close: (0, 0),
                    wrap_open: (0, 0),
                    wrap_close: (0, 0),
                    parent: owners.last().copied(),
                    depth: owners.len(),
                });
                let (ls, le) = push_line(
                    r,
                    &format!("{}{}", ind(level), opn),
                    String::new(),
                    owners,
                    2,
                    Some(idx),
                );
                r.elems[idx].open = (ls + ind(level).len(), le);
                owners.push(idx);
                if *unwrap {
                    let wid = next_id(ctr);
                    let w = push_line(
                        r,
                        &if o.plain {
                            format!("{}if {}", ind(level), wid)
                        } else if *ctr % 2 == 1 {
                            // every other wrapper line ends in a multi-byte character
                            format!("{}if ({}) {{ // 開", ind(level), wid)
                        } else {
                            format!("{}if ({}) {{", ind(level), wid)
                        },
                        wid,
                        owners,
                        4,
                        Some(idx),
                    );
                    r.elems[idx].wrap_open = w;
                    render_list(body, o, level + 1, owners, r, ctr);
                    let wid = next_id(ctr);
                    let w = push_line(
                        r,
                        &if o.plain { format!("{}end {}", ind(level), wid) } else { format!("{}}} // {}", ind(level), wid) },
                        wid,
                        owners,
                        5,
                        Some(idx),
                    );
                    r.elems[idx].wrap_close = w;
                } else {
                    render_list(body, o, level, owners, r, ctr);
                }
                owners.pop();
                let (ls, le) = push_line(
                    r,
                    &format!("{}{}", ind(level), cls),
                    String::new(),
                    owners,
                    3,
                    Some(idx),
                );
                r.elems[idx].close = (ls + ind(level).len(), le);
            }
        }
    }
}

impl Rendered {
    /// E by construction: union over ready elements (kind ready; skip never) of their extents.
    pub fn truth_e(&self) -> Vec<bool> {
        let mut e = vec![false; self.src.len()];
        for el in &self.elems {
            if !el.kind.ready() {
                continue;
            }
            let ranges: Vec<(usize, usize)> = if el.unwrap && el.wrap_open == (0, 0) {
                vec![] // cannot be unwrapped
            } else if el.unwrap {
                vec![
                    (el.open.0, el.wrap_open.1),
                    (el.wrap_close.0, el.close.1),
                ]
            } else {
                vec![(el.open.0, el.close.1)]
            };
            for (s, t) in ranges {
                for x in e.iter_mut().take(t.min(self.src.len())).skip(s) {
                    *x = true;
                }
            }
        }
        e
    }
    pub fn n_ready(&self) -> usize {
        self.elems.iter().filter(|e| e.kind.ready()).count()
    }
}
